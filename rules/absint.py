"""Path-sensitive constant / variant propagation over a (usually inlined) MIR body.

This is a dataflow analysis in a term domain (symex.Sym): values are terms built from the function's inputs, constants,
aggregates and opaque call results.  At a `switchInt` whose scrutinee evaluates to a known discriminant / constant only that
edge is followed; otherwise every edge is followed and the place that was examined is *refined* on each edge (so a later match
on the same place agrees with the earlier one).  Loops are cut after `max_visits` visits of a block on one path.  No solver,
no concrete execution: the result is the set of abstract paths with the calls (events) seen on each and the abstract store at
its end.

Used by the rules that ask "what does this code do with a value of that shape" independent of how the code is spelled:
what a queue consumer returns for an element / a token / an empty queue, what `recv` maps a queue result to, which response
an error arm of the connection parser produces, ...
"""
from core import pl_key, op_place, op_const, call_name, switch_on_discr, bool_switch, CheckerError
import re
import symex


class Path:
    __slots__ = ("blocks", "state", "events", "conds", "end")

    def __init__(self, blocks, state, events, conds, end):
        self.blocks, self.state, self.events, self.conds, self.end = blocks, state, events, conds, end

    def ret(self):
        return self.state.read_key((0,))

    def calls(self, pred=None):
        return [e for e in self.events if e[1] == "call" and (pred is None or pred(e))]


def variant_of(v):
    """variant name of an enum-valued term, or None when unknown"""
    k = v[0]
    if k == "some":
        return "Some"
    if k == "none":
        return "None"
    if k in ("agg", "variant"):
        return v[2]
    if k == "refined":
        return v[2]
    return None


def _cmp(op, a, b):
    try:
        return {"Eq": a == b, "Ne": a != b, "Lt": a < b, "Le": a <= b, "Gt": a > b, "Ge": a >= b}[op]
    except Exception:
        return None


def const_of(v):
    """python value of a constant term (bool / int / str), else None"""
    if v[0] == "const" and v[1] is not None:
        return v[1]
    if v[0] == "binop" and v[1] in ("Eq", "Ne", "Lt", "Le", "Gt", "Ge"):
        a, b = const_of(v[2]), const_of(v[3])
        if a is not None and b is not None and (type(a) == type(b) or (isinstance(a, int) and isinstance(b, int))):
            return _cmp(v[1], a, b)
    if v[0] == "unop" and v[1] == "Not":
        a = const_of(v[2])
        if isinstance(a, bool):
            return not a
    if v[0] == "cast" and v[2][0] in ("const", "discr"):
        return const_of(v[2])
    if v[0] == "discr" and len(v) > 2:
        name = variant_of(v[1])
        if name is not None:
            for val, n in v[2]:
                if n == name:
                    return val
    return None


def subst(v, mapping):
    """replace sub-terms (compared by ==) according to mapping: list of (old, new)"""
    for old, new in mapping:
        if v == old:
            return new
    if not isinstance(v, tuple):
        return v
    out = []
    for x in v:
        if isinstance(x, tuple):
            out.append(subst(x, mapping))
        elif isinstance(x, list):
            out.append([subst(y, mapping) if isinstance(y, tuple) else y for y in x])
        elif isinstance(x, dict):
            out.append({k: subst(y, mapping) if isinstance(y, tuple) else y for k, y in x.items()})
        else:
            out.append(x)
    return tuple(out)


def contains(v, needle):
    if v == needle:
        return True
    if isinstance(v, tuple) or isinstance(v, list):
        return any(contains(x, needle) for x in v if isinstance(x, (tuple, list, dict)))
    if isinstance(v, dict):
        return any(contains(x, needle) for x in v.values() if isinstance(x, (tuple, list, dict)))
    return False


def walk_terms(v):
    if isinstance(v, tuple):
        yield v
        for x in v:
            if isinstance(x, (tuple, list, dict)):
                for y in walk_terms(x):
                    yield y
    elif isinstance(v, list):
        for x in v:
            for y in walk_terms(x):
                yield y
    elif isinstance(v, dict):
        for x in v.values():
            for y in walk_terms(x):
                yield y


def canon_cmp(v):
    """canonical form of a comparison term: (key, negated).  Eq is symmetric, Ne = !Eq, Ge = !Lt, Gt(a,b) = Lt(b,a), Le(a,b) = !Lt(b,a)"""
    neg = False
    while v[0] == "unop" and v[1] == "Not":
        v, neg = v[2], not neg
    if v[0] != "binop" or v[1] not in ("Eq", "Ne", "Lt", "Le", "Gt", "Ge"):
        # any other boolean term: the term itself, with the negations peeled off (`!x` assumed false means x assumed true)
        return ("bool:%s" % repr(v), neg) if neg else None
    op, a, b = v[1], v[2], v[3]
    if op in ("Eq", "Ne"):
        x, y = sorted([repr(a), repr(b)])
        return ("cmp:Eq:%s:%s" % (x, y), neg != (op == "Ne"))
    if op == "Lt":
        return ("cmp:Lt:%s:%s" % (repr(a), repr(b)), neg)
    if op == "Ge":
        return ("cmp:Lt:%s:%s" % (repr(a), repr(b)), not neg)
    if op == "Gt":
        return ("cmp:Lt:%s:%s" % (repr(b), repr(a)), neg)
    return ("cmp:Lt:%s:%s" % (repr(b), repr(a)), not neg)


def discr_test(v, truth):
    """v: a boolean term of the form [!] (discriminant(x) ==/!= K): -> ('variant', None, name, x) when that determines one variant, else None"""
    neg = False
    while v and v[0] == "unop" and v[1] == "Not":
        v, neg = v[2], not neg
    if not (v and v[0] == "binop" and v[1] in ("Eq", "Ne")):
        return None
    a, b = v[2], v[3]
    if b and b[0] in ("discr", "cast") and a and a[0] == "const":
        a, b = b, a
    while a and a[0] == "cast":
        a = a[2]
    if not (a and a[0] == "discr" and len(a) > 2 and a[2]):
        return None
    k = const_of(b)
    if not isinstance(k, int) or isinstance(k, bool):
        return None
    names = {val: n for val, n in a[2]}
    if k not in names:
        return None
    holds = (truth != neg) == (v[1] == "Eq")
    if holds:
        return ("variant", None, names[k], a[1])
    others = [n for val, n in a[2] if val != k]
    if len(others) == 1:
        return ("variant", None, others[0], a[1])
    return None


class Explorer:
    def __init__(self, f, stop=None, unwind=False, max_paths=600, max_visits=2, max_steps=4000, on_call=None, decide=None, stop_blocks=None, on_drop=None, deep_events=False):
        self.f = f
        self.stop = stop            # stop(bb, term, state) -> reason or None : checked before a call / drop is executed
        self.unwind = unwind
        self.max_paths = max_paths
        self.max_visits = max_visits
        self.max_steps = max_steps
        self.on_call = on_call      # on_call(bb, term, args, state) -> value or None : model a call's result
        self.decide = decide        # decide(bb, term, value, state) -> list of targets or None
        self.on_drop = on_drop      # on_drop(bb, term, state) -> anything: stored as the 6th element of the drop event
        self.deep_events = deep_events   # record the arguments of calls with references resolved at call time (9th element)
        self.stop_blocks = set(stop_blocks or ())   # entering one of these blocks ends the path ("stop", bb, "block")
        self.paths = []

    # -- switch handling ---------------------------------------------------------------------
    def _plain_enum(self, adt):
        facts = getattr(self.f, "facts", None)
        a = facts.adts.get(adt) if facts is not None and adt else None
        return a is not None and a.get("kind") == "Enum" and all(not v["fields"] for v in a["variants"])

    def _switch_targets(self, bb, st):
        """-> list of (target, refine or None, cond descr)"""
        f = self.f
        t = f.term(bb)
        v = st.operand(t["discr"])
        alltargets = [(val, tg) for val, tg in t["targets"]] + [(None, t["otherwise"])]
        if self.decide:
            r = self.decide(bb, t, v, st)
            if r is not None:
                return [(tg, None, ("decided", tg)) for tg in r]
        sw = switch_on_discr(f, bb)
        if sw:
            rv, m, otherwise, rest = sw
            key = st.resolve_key(pl_key(rv["pl"]))
            cur = st.read_key(key)
            name = variant_of(cur)
            adt = rv.get("adt")
            cur_d = None
            tk = None
            if name is None:
                # a plain value -- of a field-less enum of the crate, or an Option of a number -- that is the result of a call or what a
                # place held on entry: copies of it (in a tuple, in another local, in an argument bundle) are the same value, so a match on
                # one copy agrees with an earlier match on another
                cur_d = deep(st, cur)
                if cur_d and cur_d[0] == "call" and self._plain_enum(adt):
                    tk = "variant:" + repr(cur_d)
                elif cur_d and cur_d[0] == "init" and isinstance(cur_d[1], tuple) and (self._plain_enum(adt) or
                        (adt == "std::option::Option" and re.match(r"^std::option::Option<([ui](8|16|32|64|128|size)|bool)>$", st.type_of_key(cur_d[1]) or ""))):
                    tk = "variant:" + repr(cur_d)
                if tk is not None and tk in getattr(st, "assumed", {}):
                    name = st.assumed[tk]
            if name is not None:
                tg = m.get(name, otherwise if name in rest or name not in m else None)
                if tg is None:
                    tg = otherwise
                return [(tg, None, None)]
            out = []
            if cur_d is None:
                cur_d = deep(st, cur)
            for n, tg in m.items():
                out.append((tg, (key, n, adt, cur_d, tk), ("variant", key, n, cur_d)))
            if rest or not m:
                for n in rest:
                    out.append((otherwise, (key, n, adt, cur_d, tk), ("variant", key, n, cur_d)))
                if not rest:
                    out.append((otherwise, None, ("variant", key, "?", cur_d)))
            return out
        c = const_of(v)
        if c is not None:
            iv = int(c) if isinstance(c, (bool, int)) else None
            if iv is not None:
                for val, tg in t["targets"]:
                    if val == iv:
                        return [(tg, None, None)]
                return [(t["otherwise"], None, None)]
        # unknown scalar: follow every edge, remembering the assumption so that equal scrutinees agree later
        k = repr(v)
        known = st.__dict__.setdefault("assumed", {})
        canon = canon_cmp(v) if t.get("dty") == "bool" else None
        if canon is not None:
            ck, cneg = canon
            if ck in known and known[ck] in (0, 1):
                iv = known[ck] ^ (1 if cneg else 0)
                for val, tg in t["targets"]:
                    if val == iv:
                        return [(tg, None, None)]
                return [(t["otherwise"], None, None)]
        if k not in known and t.get("dty") == "bool" and ("bool:" + k) in known and known["bool:" + k] in (0, 1):
            known = dict(known)
            known[k] = known["bool:" + k]
        if k in known:
            iv = known[k]
            for val, tg in t["targets"]:
                if val == iv:
                    return [(tg, None, None)]
            return [(t["otherwise"], None, None)]
        # the negation of an assumed boolean
        if v[0] == "unop" and v[1] == "Not" and repr(v[2]) in known and known[repr(v[2])] in (0, 1):
            iv = 1 - known[repr(v[2])]
            for val, tg in t["targets"]:
                if val == iv:
                    return [(tg, None, None)]
            return [(t["otherwise"], None, None)]
        out = []
        vals = [x for x, _ in t["targets"]]
        is_bool = t.get("dty") == "bool"
        v = deep(st, v)
        # a test of the variant of a plain value held on entry (`len.is_some()` on a copy of a field): it agrees with what an earlier
        # match on another copy of that value found
        vt = vf = tkd = None
        if is_bool:
            vt, vf = discr_test(v, True), discr_test(v, False)
            x = (vt or vf)[3] if (vt or vf) else None
            if x and x[0] == "init" and isinstance(x[1], tuple):
                ty = st.type_of_key(x[1]) or ""
                if re.match(r"^std::option::Option<([ui](8|16|32|64|128|size)|bool)>$", ty) or self._plain_enum(re.sub(r"<.*$", "", ty)):
                    tkd = "variant:" + repr(x)
            if tkd is not None and tkd in known:
                nm = known[tkd]
                iv = None
                if vt is not None and vt[2] == nm:
                    iv = 1
                elif vf is not None and vf[2] == nm:
                    iv = 0
                elif vt is not None and vf is None:
                    iv = 0
                elif vf is not None and vt is None:
                    iv = 1
                if iv is not None:
                    for val, tg in t["targets"]:
                        if val == iv:
                            return [(tg, None, None)]
                    return [(t["otherwise"], None, None)]
        def asm(val):
            extra = []
            if tkd is not None and val in (0, 1):
                vc = vt if val == 1 else vf
                if vc is not None:
                    extra = [(tkd, vc[2])]
            if canon is not None and val in (0, 1):
                return ("assumeN", [(k, val), (canon[0], val ^ (1 if canon[1] else 0))] + extra)
            return ("assumeN", [(k, val)] + extra)
        def cond(val):
            # `x.is_some()` / `matches!(x, V)` compiled to a comparison of the discriminant with a constant: record it as what it is,
            # a test of the variant of x
            if is_bool:
                vc = discr_test(v, bool(val))
                if vc is not None:
                    return vc
            return ("scalar", v, bool(val) if is_bool else val, vals)
        for val, tg in t["targets"]:
            out.append((tg, asm(val), cond(val)))
        if is_bool and vals in ([0], [1]):
            other = 1 - vals[0]
            out.append((t["otherwise"], asm(other), cond(other)))
        else:
            out.append((t["otherwise"], ("assume", k, "other:%s" % ",".join(str(x) for x in vals)), ("scalar", v, None, vals)))
        return out

    @staticmethod
    def _apply_refine(st, refine):
        if refine is None:
            return
        if refine[0] == "assumeN":
            st.__dict__.setdefault("assumed", {})
            st.assumed = dict(st.assumed)
            for k_, v_ in refine[1]:
                st.assumed[k_] = v_
            return
        if refine[0] in ("assume", "assume2"):
            st.__dict__.setdefault("assumed", {})
            st.assumed = dict(st.assumed)
            st.assumed[refine[1]] = refine[2]
            if refine[0] == "assume2":
                st.assumed[refine[3]] = refine[4]
            return
        key, name, adt, cur = refine[:4]
        if len(refine) > 4 and refine[4] is not None:
            st.__dict__.setdefault("assumed", {})
            st.assumed = dict(st.assumed)
            st.assumed[refine[4]] = name
        if adt == "std::option::Option":
            st.write_key(key, ("none",) if name == "None" else ("some", ("payload", cur, "Some", "0")))
        else:
            st.write_key(key, ("refined", adt, name, cur))

    # -- main loop -----------------------------------------------------------------------------
    def run(self, start, state=None):
        f = self.f
        st0 = state.clone() if state is not None else symex.Sym(f)
        if not hasattr(st0, "assumed"):
            st0.assumed = {}
        work = [(start, st0, [], [], [], {})]
        steps = 0
        while work:
            bb, st, blocks, events, conds, visits = work.pop()
            while True:
                steps += 1
                if steps > self.max_steps * 50:
                    raise CheckerError("abstract exploration of %s does not terminate" % f.id)
                if bb in self.stop_blocks and blocks:
                    self._emit(Path(blocks + [bb], st, events, conds, ("stop", bb, "block")))
                    break
                n = visits.get(bb, 0)
                if n >= self.max_visits:
                    self._emit(Path(blocks + [bb], st, events, conds, ("cut", bb)))
                    break
                visits = dict(visits)
                visits[bb] = n + 1
                blocks = blocks + [bb]
                for s in f.stmts(bb):
                    if s["s"] == "assign":
                        st.write_key(pl_key(s["lhs"]), st.rvalue(s["rhs"]))
                    elif s["s"] == "setdiscr":
                        pass
                t = f.term(bb)
                k = t["t"]
                if k == "goto":
                    bb = t["target"]
                    continue
                if k == "return":
                    self._emit(Path(blocks, st, events, conds, ("return", bb)))
                    break
                if k in ("resume", "terminate", "unreachable"):
                    self._emit(Path(blocks, st, events, conds, (k, bb)))
                    break
                if k == "switch":
                    outs = self._switch_targets(bb, st)
                    if len(outs) == 1:
                        self._apply_refine(st, outs[0][1])
                        bb = outs[0][0]
                        continue
                    for tg, refine, cond in outs[1:]:
                        st2 = st.clone()
                        st2.assumed = dict(getattr(st, "assumed", {}))
                        self._apply_refine(st2, refine)
                        work.append((tg, st2, blocks, list(events), conds + [(bb, cond)], visits))
                    tg, refine, cond = outs[0]
                    self._apply_refine(st, refine)
                    conds = conds + [(bb, cond)]
                    bb = tg
                    continue
                if k in ("call", "drop", "assert"):
                    if self.stop:
                        why = self.stop(bb, t, st)
                        if why:
                            self._emit(Path(blocks, st, events, conds, ("stop", bb, why)))
                            break
                if k == "call":
                    name = call_name(t)
                    args = [st.operand(a) for a in t["args"]]
                    derefs = [st.read_key(a[1]) if a[0] == "ref" else None for a in args]
                    deep_args = [deep(st, a) for a in args] if self.deep_events else None
                    res = None
                    if self.on_call:
                        res = self.on_call(bb, t, args, st)
                    if res is None:
                        res = st.call(name, t, args, bb)
                        if res and res[0] == "call" and len(res) == 5 and res[3] == bb and visits.get(bb, 1) > 1:
                            res = res + (visits.get(bb, 1),)     # the same call site on a later loop iteration yields a different value
                    st.calls.append((bb, name, args, res))
                    events = events + [(bb, "call", name, args, res, derefs, t.get("callee"), t.get("res_name") or "", deep_args)]
                    st.write_key(pl_key(t["dest"]), res)
                    if t.get("target") is None:
                        self._emit(Path(blocks, st, events, conds, ("diverge", bb)))
                        break
                    bb = t["target"]
                    continue
                if k == "drop":
                    extra = self.on_drop(bb, t, st) if self.on_drop else None
                    events = events + [(bb, "drop", t["ty"], st.resolve_key(pl_key(t["pl"])), st.read_place(t["pl"]), extra)]
                    bb = t["target"]
                    continue
                if k == "assert":
                    events = events + [(bb, "assert", t.get("kind"), None, None)]
                    bb = t["target"]
                    continue
                self._emit(Path(blocks, st, events, conds, ("other", bb)))
                break
        return self.paths

    def _emit(self, p):
        self.paths.append(p)
        if len(self.paths) > self.max_paths:
            raise CheckerError("abstract exploration of %s: more than %d paths" % (self.f.id, self.max_paths))


def explore(f, start=0, state=None, **kw):
    return Explorer(f, **kw).run(start, state)


def deep(st, v, depth=0, seen=None):
    """v with every reference replaced by ('ref*', <value it points to>) (bounded), so that a rule can ask what a borrowed
    argument was computed from"""
    if depth > 30 or not isinstance(v, tuple):
        return v
    if v and v[0] == "ref" and len(v) == 2 and isinstance(v[1], tuple):
        seen = seen or set()
        if v[1] in seen:
            return v
        try:
            inner = st.read_key(v[1])
        except Exception:
            return v
        return ("ref*", deep(st, inner, depth + 1, seen | {v[1]}))
    out = []
    for x in v:
        if isinstance(x, tuple):
            out.append(deep(st, x, depth + 1, seen))
        elif isinstance(x, list):
            out.append([deep(st, y, depth + 1, seen) if isinstance(y, tuple) else y for y in x])
        elif isinstance(x, dict):
            out.append({k: deep(st, y, depth + 1, seen) if isinstance(y, tuple) else y for k, y in x.items()})
        else:
            out.append(x)
    return tuple(out)


def str_consts(v):
    """string literals occurring in a term"""
    out = []
    for x in walk_terms(v):
        if x and x[0] == "const" and isinstance(x[1], str):
            out.append(x[1])
    return out


def calls_in(v):
    return [x for x in walk_terms(v) if x and x[0] == "call"]


def io_model(bb, t, args, st):
    """on_call model of the two std::io::Error operations the parser's error arms depend on: `Error::new(kind, _).kind()`
    is `kind`, and comparing two known ErrorKind values is decided"""
    n = call_name(t)
    def val(a):
        return st.read_key(a[1]) if a[0] == "ref" else (a[1] if a[0] == "constref" else a)
    if n == "std::io::Error::kind" and args:
        e = val(args[0])
        if e[0] == "call" and e[1].startswith("std::io::Error::new") and e[2]:
            return e[2][0]
    if n.endswith("std::io::ErrorKind as std::cmp::PartialEq>::eq") or n.endswith("std::io::ErrorKind as std::cmp::PartialEq>::ne"):
        a, b = val(args[0]), val(args[1])
        if a[0] == "agg" and b[0] == "agg" and a[1] == b[1] == "std::io::ErrorKind":
            r = a[2] == b[2]
            if n.endswith("::ne"):
                r = not r
            return ("const", r, str(r).lower(), None)
    return None


def freeze(st, v):
    """the term with every reference into the state `st` replaced by what it points to (so that it can be handed to an evaluation of its own)"""
    v = deep(st, v)
    def conv(x, d=0):
        if not isinstance(x, tuple) or d > 30:
            return x
        if x and x[0] == "ref*":
            return ("constref", conv(x[1], d + 1))
        return tuple(conv(y, d + 1) if isinstance(y, tuple) else ([conv(z, d + 1) for z in y] if isinstance(y, list) else ({k: conv(z, d + 1) for k, z in y.items()} if isinstance(y, dict) else y)) for y in x)
    return conv(v)


def eval_closure(facts, clo, args, on_call=None):
    """the value a closure of the crate returns for these (frozen) arguments, when every path returns the same one; None otherwise"""
    import inline, symex
    import queue_rules as Q
    if not (clo and clo[0] == "closure" and clo[1] in facts.fns):
        return None
    g0 = facts.fns[clo[1]]
    cache = facts.__dict__.setdefault("_closure_inl", {})
    if clo[1] not in cache:
        cache[clo[1]] = inline.inlined(facts, clo[1], stop=lambda d: facts.fns[d].rec.get("local") and facts.fns[d].file != g0.file, extern_ok=Q.std_small)
    g = cache[clo[1]]
    st = symex.Sym(g)
    st.write_key((1, "*") if g.local_ty(1).startswith("&") else (1,), clo)
    for i, a in enumerate(args):
        st.write_key((2 + i,), a)
    rets = {repr(r): r for r in (deep(p.state, p.ret()) for p in explore(g, 0, st, on_call=on_call, max_paths=64) if p.end[0] == "return")}
    return list(rets.values())[0] if len(rets) == 1 else None


def table_model(facts, inner=None):
    """on_call model: searching a table whose contents are known (a `const` array, a literal array) with a closure of the crate --
    `TABLE.iter().find(|e| ..)`, `position`, `any`, `all`, `find_map` -- is evaluated element by element, in order, when the closure's
    answer is decided for every element examined.  Anything else is left to `inner`."""
    def elements(st, it):
        v = deep(st, it)
        while v and v[0] == "ref*":
            v = v[1]
        if not (v and v[0] == "call" and re.search(r"core::slice::<impl \[T\]>::iter$|<&'a \[T(; N)?\] as std::iter::IntoIterator>::into_iter$|<\[T; N\] as std::iter::IntoIterator>::into_iter$", v[1]) and v[2]):
            return None
        a = v[2][0]
        while a and a[0] in ("ref*", "constref"):
            a = a[1]
        if a and a[0] == "aggx" and a[1] == "array":
            return list(a[2])
        return None
    def on_call(bb, t, args, st):
        n = call_name(t)
        m = re.search(r"<std::slice::Iter<'a, T> as std::iter::Iterator>::(find|position|any|all|find_map)$", n)
        if m and len(args) == 2:
            els = elements(st, args[0])
            clo = freeze(st, args[1])
            if els is not None and clo and clo[0] == "closure":
                op = m.group(1)
                for i, e in enumerate(els):
                    e = freeze(st, e)
                    arg = ("constref", ("constref", e)) if op == "find" else ("constref", e)
                    r = eval_closure(facts, clo, [arg], on_call=on_call)
                    if r is None:
                        break
                    if op == "find_map":
                        if r[0] == "some":
                            return r
                        if r[0] != "none":
                            break
                        continue
                    c = const_of(r)
                    if not isinstance(c, bool):
                        break
                    if op == "find" and c:
                        return ("some", ("constref", e))
                    if op == "position" and c:
                        return ("some", ("const", i, "%d_usize" % i, None))
                    if op == "any" and c:
                        return ("const", True, "true", None)
                    if op == "all" and not c:
                        return ("const", False, "false", None)
                else:
                    return {"find": ("none",), "position": ("none",), "find_map": ("none",), "any": ("const", False, "false", None), "all": ("const", True, "true", None)}[op]
        return inner(bb, t, args, st) if inner else None
    return on_call


def head_call(x, depth=0):
    """the call whose result the term is (a projection of): peels field / downcast / refined / payload / unwrap / deref / ref* / cast
    wrappers.  None when the term is not simply the (unwrapped) result of one call."""
    while isinstance(x, tuple) and x and depth < 40:
        depth += 1
        k = x[0]
        if k == "call":
            return x
        if k in ("field", "downcast", "deref", "unwrap", "ref*", "payload"):
            x = x[1]
        elif k == "refined":
            x = x[3]
        elif k == "cast":
            x = x[2]
        elif k == "some":
            x = x[1]
        else:
            return None
    return None


def sum_leaves(x, depth=0):
    """leaves of a term built with + (Add / AddWithOverflow(.0) / AddUnchecked): list of terms; [x] when x is not a sum"""
    if depth > 40 or not isinstance(x, tuple):
        return [x]
    if x and x[0] == "field" and x[2] == "0" and isinstance(x[1], tuple) and x[1] and x[1][0] == "binop" and x[1][1] == "AddWithOverflow":
        return sum_leaves(x[1][2], depth + 1) + sum_leaves(x[1][3], depth + 1)
    if x and x[0] == "binop" and x[1] in ("Add", "AddUnchecked"):
        return sum_leaves(x[2], depth + 1) + sum_leaves(x[3], depth + 1)
    return [x]


def mentions_call(v, g):
    """does term v contain the result of call g (same callee, same call site, same loop iteration), however wrapped?"""
    if not (g and g[0] == "call"):
        return contains(v, g)
    for x in walk_terms(v):
        if x and x[0] == "call" and x[1] == g[1] and x[3] == g[3] and (x[5] if len(x) > 5 else 1) == (g[5] if len(g) > 5 else 1):
            return True
    return False
