"""Monitor-discipline rules for the request queue, shared by C07, C11 and C17.

The rules do not depend on how the queue's entries are represented (an enum with an element and a token variant, an
`Option<T>` whose `None` is the token, ...), on the names of its private fields, or on whether the code of a method sits in the
method itself or in private helpers: every API method of the queue type is analysed with its helpers and the small std
combinators spliced in (inline.py), and what a consumer does with an entry is decided by path-sensitive variant propagation
(absint.py) started from "the entry just popped is <what the element producer queues> / <what the token producer queues> /
nothing".
"""
import re
from core import *  # noqa
from roles import *  # noqa
import roles, shared, symex, inline, absint

DEQUE_RX = r"std::collections::VecDeque::<T(?:, A)?>::(\w+)$"
DEQUE_FORBIDDEN = {"push_front", "pop_back", "insert", "remove", "swap", "swap_remove_back", "swap_remove_front", "drain", "retain",
                   "retain_mut", "clear", "truncate", "rotate_left", "rotate_right", "append", "split_off", "make_contiguous", "resize",
                   "resize_with", "extend", "iter_mut", "get_mut", "front_mut", "back_mut", "as_mut_slices", "range_mut", "sort", "binary_search",
                   # looking without taking: a decision made on a peeked element (e.g. leaving an unblock token at the head) breaks the
                   # one-token-one-receiver accounting and FIFO delivery
                   "front", "back", "get", "iter", "contains", "range", "as_slices", "index"}
FORBIDDEN_UNDER_LOCK = {"BLOCK-IO", "CHAN-RECV", "WAIT-TURN-W", "WAIT-TURN-R", "SLEEP", "JOIN", "SPAWN", "USER-CALLBACK", "DYN-UNKNOWN", "FNPTR", "FS", "NET-CTL"}

ENQUEUE = {"push_back", "push_front", "insert", "extend", "append"}

STD_SMALL = re.compile(r"^std::(option::Option|result::Result)::<|^std::cmp::Ordering::"
                       r"|^<std::(option::Option|result::Result)<.*> as std::ops::(Try|FromResidual)"
                       r"|^<T as std::convert::Into<U>>::into$|^core::bool::<impl bool>::then(_some)?$")


def std_small(d):
    return bool(STD_SMALL.search(d))


ELEM = ("sym", "queued-value")


def find_queue_adt(facts):
    """the monitor type: a local struct with a `Mutex<VecDeque<..>>` field and a `Condvar` field"""
    out = []
    for aid, a in sorted(facts.adts.items()):
        if a["kind"] != "Struct":
            continue
        fs = a["variants"][0]["fields"]
        def guards_deque(ty):
            if re.match(r"^std::sync::Mutex<std::collections::VecDeque<", ty):
                return True
            # the deque together with some bookkeeping in a private struct behind the mutex (`Mutex<Inner<T>>`, Inner {items: VecDeque<..>, ..})
            m_ = re.match(r"^std::sync::Mutex<([\w:]+)(<.*>)?>$", ty)
            b_ = facts.adts.get(m_.group(1)) if m_ else None
            if b_ is not None and b_["kind"] == "Struct" and str(b_.get("file", "")).startswith("src/"):
                return len([y for y in b_["variants"][0]["fields"] if y["ty"].startswith("std::collections::VecDeque<")]) == 1
            return False
        dq = [x["name"] for x in fs if guards_deque(x["ty"])]
        cv = [x["name"] for x in fs if x["ty"] == "std::sync::Condvar"]
        if len(dq) == 1 and len(cv) == 1:
            out.append((aid, dq[0], cv[0]))
    if len(out) > 1:
        # the request queue is the monitor the Server itself holds (the task pool has one of its own)
        srv = facts.adts.get(SERVER)
        if srv:
            held = [x for x in out if any(x[0] in fl["ty"] for fl in srv["variants"][0]["fields"])]
            if held:
                out = held
    if len(out) != 1:
        raise CheckerError("queue rules: expected exactly one monitor type (Mutex<VecDeque<_>> + Condvar), found %s" % [x[0] for x in out])
    return out[0]


def dq_calls(f, name=None):
    out = []
    for bb, t in f.calls():
        m = re.search(DEQUE_RX, call_name(t))
        if m and (name is None or m.group(1) == name):
            out.append((bb, m.group(1)))
    return out


def deque_calls(f, name):
    if name == "push_back":
        # any way of putting an entry into the deque counts as queueing it (the FIFO census objects to the ones that are not push_back)
        return [bb for bb, n in dq_calls(f) if n in ENQUEUE]
    return [bb for bb, n in dq_calls(f, name)]


def wait_calls(f):
    return [bb for bb, t in f.calls() if call_is(t, CV_WAIT, CV_WAIT_T, *CV_WAIT_WHILE)]


def notify_calls(f):
    return [bb for bb, t in f.calls() if call_is(t, *CV_NOTIFY)]


class QueueModel:
    def __init__(self, facts):
        self.facts = facts
        self.adt, self.dq_field, self.cv_field = find_queue_adt(facts)
        self.methods = [f for k, f in sorted(facts.local_fns.items()) if f.rec.get("impl_self_adt") == self.adt and f.rec["def_kind"] == "AssocFn"]
        mids = {m.id for m in self.methods}
        self.roots = []
        for m in self.methods:
            callers = facts.callers_of(m.id)
            outside = [g for g, bb, t in callers if g.rec.get("impl_self_adt") != self.adt]
            if outside or (not callers and m.rec.get("vis_pub")):
                self.roots.append(m)
        self.inl = {m.id: inline.inlined(facts, m.id, extern_ok=std_small) for m in self.roots}
        self.producers = {}   # root id -> list of (push bb, entry term, kind 'elem'|'token'|'?')
        self.consumers = []   # root ids with a pop_front
        for m in self.roots:
            f = self.inl[m.id]
            if deque_calls(f, "push_back"):
                self.producers[m.id] = self._producer(f)
            if deque_calls(f, "pop_front"):
                self.consumers.append(m.id)

    def _producer(self, f):
        """abstract paths of a producer: what is queued and how often"""
        out = []
        pushes = set(deque_calls(f, "push_back"))
        paths = absint.explore(f, 0)
        for p in paths:
            if p.end[0] in ("diverge", "resume", "terminate", "unreachable"):
                continue
            evs = [e for e in p.events if e[1] == "call" and e[0] in pushes]
            entries = []
            for e in evs:
                term = e[3][1] if len(e[3]) > 1 else ("unknown",)
                params = [x for x in absint.walk_terms(term) if x[0] == "init" and len(x[1]) >= 1 and isinstance(x[1][0], int) and 2 <= x[1][0] <= f.argc]
                if params:
                    kind = "elem"
                    term = absint.subst(term, [(params[0], ELEM)])
                elif any(x[0] in ("init", "call", "unknown", "field", "deref") for x in absint.walk_terms(term)):
                    kind = "?"
                else:
                    kind = "token"
                entries.append((e[0], term, kind))
            out.append((p, entries))
        return out

    def entry_shapes(self, kind):
        seen, out = set(), []
        for rid, paths in sorted(self.producers.items()):
            for p, entries in paths:
                for bb, term, k in entries:
                    if k == kind and repr(term) not in seen:
                        seen.add(repr(term))
                        out.append((rid, term))
        return out

    def producer_roots(self, kind):
        return sorted({rid for rid, paths in self.producers.items() for p, entries in paths for bb, term, k in entries if k == kind})

    def consume(self, rid, pop_bb, entry):
        """abstract paths of consumer `rid` after the pop at pop_bb returned `entry` (a term for Option<Entry>)"""
        f = self.inl[rid]
        t = f.term(pop_bb)
        st = symex.Sym(f)
        st.write_key(pl_key(t["dest"]), entry)
        def stop(bb, t2, st2):
            if t2["t"] != "call":
                return None
            n = call_name(t2)
            m = re.search(DEQUE_RX, n)
            if m:
                return "deque:" + m.group(1)
            if call_is(t2, CV_WAIT, CV_WAIT_T, *CV_WAIT_WHILE):
                return "wait"
            return None
        return absint.explore(f, t["target"], st, stop=stop)


def model(facts):
    if not hasattr(facts, "_queue_model"):
        facts._queue_model = QueueModel(facts)
    return facts._queue_model


def mq_fns(facts):
    return model(facts).methods


def _roots(ctx):
    m = model(ctx.facts)
    return [(r, m.inl[r.id]) for r in m.roots]


# ------------------------------------------------------------------------------------------------

def rule_notify_after_push(ctx, rule):
    """DOM: every push_back on the queue is followed by a notify before the function returns"""
    n = 0
    m = model(ctx.facts)
    cv_fields = set()
    for r, f in _roots(ctx):
        pbs = deque_calls(f, "push_back")
        if not pbs:
            continue
        ctx.touch(r, calls=len(pbs))
        nots = set(notify_calls(f))
        for i, pb in enumerate(pbs):
            n += 1
            reach = f.reach([f.normal_target(pb)], blocked=nots, unwind=False)
            ok = not any(x in reach for x in f.returns())
            ctx.paths += 1
            ctx.ob(rule, "%s|push_back-then-notify|%d" % (r.id, i), "every element or token queued is followed by a condvar notification before the lock is released",
                   ok, f.loc(pb), None if ok else "path from push_back to return without notify_*: %s" % f.path([f.normal_target(pb)], f.returns(), blocked=nots, unwind=False))
        for nb in nots:
            o = f.origin(f.term(nb)["args"][0])
            okc = m.cv_field in origin_fields(o)
            ctx.ob(rule, "%s|notify-own-condvar" % r.id, "the notification goes to the queue's own condvar (the one its consumers wait on)", okc, f.loc(nb))
    return n


def rule_wait_protocol(ctx, rule):
    """HANDOFF(ii): predicate checked before waiting, wait inside a loop, and every path from a
    wake-up to a return re-checks the queue unless the wait reported a timeout"""
    n = 0
    m = model(ctx.facts)
    for r, f in _roots(ctx):
        ws = wait_calls(f)
        if not ws:
            continue
        ctx.touch(r, calls=len(ws))
        pops = set(deque_calls(f, "pop_front"))
        if not pops:
            ctx.ob(rule, "%s|waits-for-the-queue" % r.id, "a method that waits on the queue's condvar examines the queue", False, "%s:%d" % (f.file, f.line))
            continue
        for i, w in enumerate(ws):
            n += 1
            key = "%s|wait%d" % (r.id, i)
            if call_is(f.term(w), *CV_WAIT_WHILE):
                # std's wait_while evaluates the predicate before sleeping and after every wake-up, in a loop of its own: what has to hold
                # is that the predicate looks at the queue
                po = f.origin(f.term(w)["args"][2]) if len(f.term(w)["args"]) > 2 else ("unknown",)
                pf = ctx.facts.fns.get(po[1]) if po[0] == "agg" else None
                # ... and says "keep waiting" exactly while the queue is empty (so that the pop that follows finds an entry)
                looks = False
                if pf is not None:
                    ro = pf.origin_place({"l": 0, "p": []})
                    straight = not any(pf.term(b)["t"] == "switch" for b in range(pf.n) if not pf.blocks[b]["cleanup"])
                    if ro[0] == "call" and re.search(r"VecDeque::<T(, A)?>::is_empty$", ro[1]) and straight:
                        looks = True
                    if ro[0] == "binop" and ro[1] == "Eq" and straight and any(x[0] == "call" and re.search(r"VecDeque::<T(, A)?>::len$", x[1]) for x in (ro[2], ro[3])) and \
                            any(x[0] == "const" and x[1] == 0 for x in (ro[2], ro[3])):
                        looks = True
                ctx.ob(rule, key + "|in-loop", "the wait is std's predicate loop (wait_while), and its predicate is `the queue is empty`", looks, f.loc(w))
                ctx.ob(rule, key + "|predicate-first", "the queue is examined before the thread goes to sleep", looks, f.loc(w))
            else:
                ctx.ob(rule, key + "|in-loop", "the condvar wait sits in a loop", f.in_loop(w), f.loc(w))
                ctx.ob(rule, key + "|predicate-first", "the queue is examined before the thread goes to sleep",
                       any(f.dominates(p, w, unwind=False) for p in pops), f.loc(w))
            o = f.origin(f.term(w)["args"][0])
            ctx.ob(rule, key + "|own-condvar", "the wait is on the queue's own condvar", m.cv_field in origin_fields(o), f.loc(w))
            # path-wise: a path that returns without looking at the queue after its last wake-up must have established that this very
            # wait reported a timeout (however that result travelled: tested at once, or stored in a struct and tested later)
            bad = []
            for p in _paths(f):
                if p.end[0] != "return":
                    continue
                evs = p.events
                widx = [k for k, e in enumerate(evs) if e[1] == "call" and e[0] == w]
                if not widx:
                    continue
                allw = [k for k, e in enumerate(evs) if e[1] == "call" and e[0] in ws]
                if allw[-1] != widx[-1]:
                    continue            # the last wake-up on this path belongs to another wait site (judged there)
                last = widx[-1]
                if any(e[1] == "call" and e[0] in pops for e in evs[last + 1:]):
                    continue
                wres = evs[last][4]
                timed = False
                for bb_, c in p.conds:
                    if c and c[0] == "scalar" and isinstance(c[2], bool):
                        v, val = c[1], c[2]
                        while v and v[0] == "unop" and v[1] == "Not":
                            v, val = v[2], not val
                        if v and v[0] == "call" and re.search(r"WaitTimeoutResult::timed_out$", v[1]) and absint.mentions_call(v, wres) and val is True:
                            timed = True
                if not timed:
                    bad.append([x for x in p.blocks[-12:]])
            ctx.paths += 1
            ok = not bad
            ctx.ob(rule, key + "|recheck-after-wake", "a thread woken by a notification looks at the queue before it leaves (otherwise the item it was woken for stays queued while other receivers sleep)",
                   ok, f.loc(w), None if ok else "an abstract path returns after the wake-up without pop_front and without having seen timed_out()==true for that wait: blocks ..%s" % bad[0])
    return n


def _paths(f):
    if not hasattr(f, "_all_paths"):
        f._all_paths = absint.explore(f, 0, None, max_visits=3, deep_events=True, max_paths=6000)
    return f._all_paths


def _ret_str(p):
    if p.end[0] == "return":
        return "returns " + symex.sym_str(p.ret())
    if p.end[0] == "stop":
        return "goes on to " + p.end[2]
    return p.end[0]


def rule_no_loss(ctx, rule):
    """every popped element is what the consumer returns (as `Some(element)`), whatever the entry representation"""
    n = 0
    m = model(ctx.facts)
    elems = m.entry_shapes("elem")
    if not elems:
        ctx.ob(rule, "producers|element-shape", "some API method of the queue queues its argument", False, m.adt)
        return 0
    for rid in m.consumers:
        f = m.inl[rid]
        for i, pb in enumerate(deque_calls(f, "pop_front")):
            ctx.touch(f)
            n += 1
            bad = []
            for prod, shape in elems:
                paths = m.consume(rid, pb, ("some", shape))
                ctx.paths += len(paths)
                for p in paths:
                    if p.end[0] in ("diverge", "resume", "terminate", "unreachable"):
                        continue
                    if not (p.end[0] == "return" and p.ret() == ("some", ELEM)):
                        bad.append(_ret_str(p))
            ok = not bad
            ctx.ob(rule, "%s|pop%d|elem-returned" % (rid, i), "a dequeued element is always returned to the caller (never dropped, re-queued, skipped or reported as nothing)",
                   ok, f.loc(pb), None if ok else "after popping an element: %s" % bad[:3])
            # an empty queue never yields a value
            paths = m.consume(rid, pb, ("none",))
            bad = [_ret_str(p) for p in paths if p.end[0] == "return" and p.ret() != ("none",)]
            ctx.ob(rule, "%s|pop%d|empty-yields-nothing" % (rid, i), "an empty queue makes the consumer wait or return nothing", not bad, f.loc(pb), None if not bad else str(bad[:3]))
    return n


def rule_tokens(ctx, rule):
    """one token per call; a token ends the receive call that takes it, which returns nothing; tokens are distinguishable from elements"""
    n = 0
    m = model(ctx.facts)
    toks = m.entry_shapes("token")
    elems = m.entry_shapes("elem")
    unk = m.entry_shapes("?")
    ctx.ob(rule, "producers|shapes-known", "every entry queued is either built around the producer's argument (an element) or a constant (an unblock token)",
           not unk and bool(toks) and bool(elems), m.adt, None if not unk else str([(r, symex.sym_str(t)) for r, t in unk]))
    for (r1, t1) in toks:
        for (r2, t2) in elems:
            def told_apart(a, b, depth=0):
                """the two values differ in the variant of an enum at the same position (the outermost value, or a field of a wrapper)"""
                va, vb = absint.variant_of(a), absint.variant_of(b)
                if va is not None and vb is not None and va != vb:
                    return True
                if depth < 4 and a and b and a[0] == b[0] == "agg" and a[1] == b[1] and a[2] == b[2] and isinstance(a[3], dict) and isinstance(b[3], dict):
                    return any(k_ in b[3] and told_apart(a[3][k_], b[3][k_], depth + 1) for k_ in a[3])
                return False
            ok = told_apart(t1, t2)
            ctx.ob(rule, "token-vs-element|%s|%s" % (r1, r2), "a token can be told from an element by its variant", ok, m.adt, "%s vs %s" % (symex.sym_str(t1), symex.sym_str(t2)))
    for rid in m.consumers:
        f = m.inl[rid]
        # a receive call never returns without having looked at the queue: a token waiting there is consumed by exactly the call that finds
        # it, so n tokens release n calls (a shortcut that answers "nothing" from a counter leaves the token for a later, unrelated call)
        pops_ = set(deque_calls(f, "pop_front"))
        blind = [_ret_str(p) for p in _paths(f) if p.end[0] == "return" and not any(e[1] == "call" and e[0] in pops_ for e in p.events)]
        ctx.ob(rule, "%s|looks-before-leaving" % rid, "every return of a receive call is preceded by a look at the head of the queue", not blind, "%s:%d" % (f.file, f.line),
               None if not blind else "returns %s without examining the queue" % blind[:2])
        for i, pb in enumerate(deque_calls(f, "pop_front")):
            for prod, shape in toks:
                n += 1
                paths = [p for p in m.consume(rid, pb, ("some", shape)) if p.end[0] not in ("diverge", "resume", "terminate", "unreachable")]
                ctx.paths += len(paths)
                again = [_ret_str(p) for p in paths if p.end[0] != "return"]
                ctx.ob(rule, "%s|pop%d|token-ends-call" % (rid, i), "after taking an unblock token the receive call returns without popping or waiting again", not again and bool(paths), f.loc(pb),
                       None if not again else str(again[:3]))
                notnone = [_ret_str(p) for p in paths if p.end[0] == "return" and p.ret() != ("none",)]
                ctx.ob(rule, "%s|pop%d|token-returns-none" % (rid, i), "a token is reported as `None`, never as an element", not notnone and bool(paths), f.loc(pb), None if not notnone else str(notnone[:3]))
    return n


def rule_one_entry_per_call(ctx, rule, kind):
    """a producer queues exactly one entry on every returning path"""
    m = model(ctx.facts)
    n = 0
    for rid in m.producer_roots(kind):
        f = m.inl[rid]
        bad = []
        for p, entries in m.producers[rid]:
            if p.end[0] == "cut" or len(entries) != 1 or entries[0][2] != kind:
                bad.append("%s: %d entries queued" % (p.end[0], len(entries)))
        n += 1
        ctx.ob(rule, "%s|one-%s" % (rid, "token" if kind == "token" else "element"), "%s queues exactly one %s per call (one push_back on every path, not in a loop)" % (short(rid), "token" if kind == "token" else "element"),
               not bad, "%s:%d" % (f.file, f.line), None if not bad else str(bad[:3]))
    return n


def rule_fifo_census(ctx, rule):
    n = 0
    m = model(ctx.facts)
    seen = set()
    for f in list(m.methods) + [m.inl[r.id] for r in m.roots]:
        for bb, name in dq_calls(f):
            src = f.src_of(bb)
            if (src, name) in seen:
                continue
            seen.add((src, name))
            n += 1
            ctx.call_sites += 1
            ctx.ob(rule, "%s|deque-%s" % (src, name), "the queue is only appended at the back and consumed at the front (FIFO); no other mutator and no peeking accessor is used",
                   name not in DEQUE_FORBIDDEN, f.loc(bb), None if name not in DEQUE_FORBIDDEN else "forbidden deque operation %s" % name)
    # the deque is reachable only from the monitor's own methods
    for f, bb, kind in ctx.facts.field_reads(m.adt, m.dq_field):
        ctx.ob(rule, "queue-field|%s" % f.id, "the deque is touched only by the queue type's own methods", f.rec.get("impl_self_adt") == m.adt, f.loc(bb))
    return n


def rule_under_lock_effects(ctx, rule):
    facts = ctx.facts
    roles.bind(facts)
    m = model(facts)
    n = 0
    for r, f in _roots(ctx):
        locks = f.call_blocks(lambda t: call_is(t, LOCK))
        if not locks:
            continue
        if getattr(f, "root_inst", None) is None or f.root_inst.get("generic"):
            # an API method of the queue nobody calls: there is no instantiation whose effects could be asked for
            ctx.note("%s: %s has no monomorphic instance (not called); skipped" % (rule, r.id))
            continue
        for bb, t in f.calls():
            if f.blocks[bb]["cleanup"]:
                continue
            if not any(f.dominates(l, bb, unwind=False) for l in locks) or bb in locks:
                continue
            n += 1
            ctx.call_sites += 1
            eff = facts.effects_at(f, bb) & FORBIDDEN_UNDER_LOCK
            ctx.ob(rule, "%s|under-lock|%s" % (r.id, short(call_name(t))), "while the queue lock is held nothing blocks on I/O, channels, other threads or user code",
                   not eff, f.loc(bb), None if not eff else "effects %s" % sorted(eff))
        for bb, t in f.drops():
            if f.blocks[bb]["cleanup"] or not any(f.dominates(l, bb, unwind=False) for l in locks):
                continue
            if "MutexGuard" in t["ty"]:
                continue
            n += 1
            eff = facts.effects_at(f, bb) & FORBIDDEN_UNDER_LOCK
            ctx.ob(rule, "%s|under-lock|drop %s" % (r.id, short(t["ty"])[:60]), "no value with a blocking destructor is dropped while the queue lock is held",
                   not eff, f.loc(bb), None if not eff else "effects %s" % sorted(eff))
    return n
