"""Monitor-discipline rules for MessagesQueue, shared by C07 and C17."""
import re
from core import *  # noqa
from roles import *  # noqa
import roles, shared, symex

VD = r"std::collections::VecDeque::<T, A>::(\w+)$|std::collections::VecDeque::<T>::(\w+)$"
DEQUE_FORBIDDEN = {"push_front", "pop_back", "insert", "remove", "swap", "swap_remove_back", "swap_remove_front", "drain", "retain",
                   "retain_mut", "clear", "truncate", "rotate_left", "rotate_right", "append", "split_off", "make_contiguous", "resize",
                   "resize_with", "extend", "iter_mut", "get_mut", "front_mut", "back_mut", "as_mut_slices", "range_mut", "sort", "binary_search",
                   # looking without taking: a decision made on a peeked element (e.g. leaving an unblock token at the head) breaks the
                   # one-token-one-receiver accounting and FIFO delivery
                   "front", "back", "get", "iter", "contains", "range", "as_slices", "index"}
FORBIDDEN_UNDER_LOCK = {"BLOCK-IO", "CHAN-RECV", "WAIT-TURN-W", "WAIT-TURN-R", "SLEEP", "JOIN", "SPAWN", "USER-CALLBACK", "DYN-UNKNOWN", "FNPTR", "FS", "NET-CTL"}


def mq_fns(facts):
    return [f for k, f in sorted(facts.local_fns.items()) if f.rec.get("impl_self_adt") == MQ and f.rec["def_kind"] == "AssocFn"]


def deque_calls(f, name):
    return [bb for bb, t in f.calls() if re.search(r"VecDeque::<T(, A)?>::%s$" % name, call_name(t))]


def wait_calls(f):
    return [bb for bb, t in f.calls() if call_is(t, CV_WAIT, CV_WAIT_T)]


def notify_calls(f):
    return [bb for bb, t in f.calls() if call_is(t, *CV_NOTIFY)]


def control_switch(f, after_bb):
    """the switch on the Control<T> discriminant that examines the value popped at after_bb.
    -> (switch_bb, {variant: target}, none_target)"""
    t = f.term(after_bb)
    dl = t["dest"]["l"]
    # locals the popped value (or its payload) is moved into
    derived = {dl}
    work = [dl]
    while work:
        l = work.pop()
        for u in f.uses().get(l, []):
            if u[0] == "stmt" and u[4] in ("move", "copy") and not u[3]["lhs"]["p"] and u[3]["lhs"]["l"] not in derived:
                derived.add(u[3]["lhs"]["l"]); work.append(u[3]["lhs"]["l"])
    none_t = None
    for bb in sorted(f.reach([t["target"]], unwind=False)):
        sw = switch_on_discr(f, bb)
        if not sw:
            continue
        rv, m, otherwise, rest = sw
        if rv["pl"]["l"] not in derived:
            continue
        if rv.get("adt") == "std::option::Option" and not rv["pl"]["p"] and none_t is None:
            none_t = m.get("None", otherwise if "None" in rest else None)
        if rv.get("adt") == CTRL:
            mm = dict(m)
            for r in rest:
                mm[r] = otherwise
            return bb, mm, none_t
    return None


def rule_notify_after_push(ctx, rule):
    """DOM: every push_back on the queue is followed by a notify before the function returns"""
    n = 0
    for f in mq_fns(ctx.facts):
        pbs = deque_calls(f, "push_back")
        if not pbs:
            continue
        ctx.touch(f, calls=len(pbs))
        nots = set(notify_calls(f))
        for i, pb in enumerate(pbs):
            n += 1
            reach = f.reach([f.normal_target(pb)], blocked=nots, unwind=False)
            ok = not any(r in reach for r in f.returns())
            ctx.paths += 1
            ctx.ob(rule, "%s|push_back-then-notify|%d" % (f.id, i), "every element or token queued is followed by a condvar notification before the lock is released",
                   ok, f.loc(pb), None if ok else "path from push_back to return without notify_*: %s" % f.path([f.normal_target(pb)], f.returns(), blocked=nots, unwind=False))
            # the notification targets this queue's condvar
            for nb in nots:
                o = f.origin(f.term(nb)["args"][0])
                okc = "condvar" in origin_fields(o)
                ctx.ob(rule, "%s|notify-own-condvar" % f.id, "the notification goes to the queue's own condvar", okc, f.loc(nb))
    return n


def rule_wait_protocol(ctx, rule):
    """HANDOFF(ii): predicate checked before waiting, wait inside a loop, and every path from a
    wake-up to a return re-checks the queue unless the wait reported a timeout"""
    n = 0
    for f in mq_fns(ctx.facts):
        ws = wait_calls(f)
        if not ws:
            continue
        ctx.touch(f, calls=len(ws))
        pops = set(deque_calls(f, "pop_front"))
        ctx.require(pops, "%s: %s waits but never pops" % (rule, f.id))
        for i, w in enumerate(ws):
            n += 1
            key = "%s|wait%d" % (f.id, i)
            ctx.ob(rule, key + "|in-loop", "the condvar wait sits in a loop", f.in_loop(w), f.loc(w))
            ctx.ob(rule, key + "|predicate-first", "the queue is examined before the thread goes to sleep",
                   any(f.dominates(p, w, unwind=False) for p in pops), f.loc(w))
            # timed_out() == true edges are exempt
            exempt = set()
            for bb, t in f.calls():
                if call_matches(t, r"WaitTimeoutResult::timed_out$") and t.get("target") is not None:
                    bs = bool_switch(f, t["target"])
                    if bs and op_local(bs[0]) == t["dest"]["l"]:
                        exempt.add(bs[1])
            start = [f.normal_target(w)]
            reach = f.reach(start, blocked=pops | exempt, unwind=False)
            bad = [r for r in f.returns() if r in reach]
            ctx.paths += 1
            ok = not bad
            ctx.ob(rule, key + "|recheck-after-wake", "a thread woken by a notification looks at the queue before it leaves (otherwise the item it was woken for stays queued while other receivers sleep)",
                   ok, f.loc(w), None if ok else "path from the wake-up to `return` without pop_front and not on the timed_out()==true edge: blocks %s" % f.path(start, bad, blocked=pops | exempt, unwind=False))
            # the mutex re-acquired by the wait is the guard used afterwards (guard flows back)
    return n


def rule_no_loss(ctx, rule):
    """every popped element is moved into the returned Some(..)"""
    n = 0
    for f in mq_fns(ctx.facts):
        for i, pb in enumerate(deque_calls(f, "pop_front")):
            cs = control_switch(f, pb)
            ctx.require(cs is not None, "%s: cannot find the match on the popped Control in %s" % (rule, f.id))
            sw, m, none_t = cs
            ctx.touch(f)
            n += 1
            elem = m.get("Elem")
            ctx.require(elem is not None, "%s: no Elem arm in %s" % (rule, f.id))
            deliver = set()
            for bb, j, s in f.assigns():
                if s["lhs"] == {"l": 0, "p": []} and s["rhs"]["rv"] == "agg" and s["rhs"].get("variant") == "Some":
                    o = f.origin(s["rhs"]["ops"][0])
                    if any(x[0] == "downcast" and x[2] == "Elem" for x in origin_walk(o)):
                        deliver.add(bb)
            pops = set(deque_calls(f, "pop_front"))
            reach = f.reach([elem], blocked=deliver, unwind=False)
            ok = bool(deliver) and not any(r in reach for r in f.returns()) and not (reach & pops)
            ctx.paths += 1
            ctx.ob(rule, "%s|pop%d|elem-returned" % (f.id, i), "a dequeued element is always returned to the caller (never dropped, re-queued or skipped)",
                   ok, f.loc(pb), None if ok else "Elem arm can reach return/pop_front without `return Some(elem)`")
    return n


def rule_fifo_census(ctx, rule):
    n = 0
    for f in mq_fns(ctx.facts):
        for bb, t in f.calls():
            m = re.search(r"VecDeque::<T(?:, A)?>::(\w+)$", call_name(t))
            if not m:
                continue
            n += 1
            ctx.call_sites += 1
            name = m.group(1)
            ctx.ob(rule, "%s|deque-%s" % (f.id, name), "the queue is only appended at the back and consumed at the front (FIFO); no other mutator and no peeking accessor is used",
                   name not in DEQUE_FORBIDDEN, f.loc(bb), None if name not in DEQUE_FORBIDDEN else "forbidden deque operation %s" % name)
    # the queue field is reachable only from MessagesQueue's own methods
    for f, bb, kind in ctx.facts.field_reads(MQ, "queue"):
        ctx.ob(rule, "queue-field|%s" % f.id, "the deque is touched only by MessagesQueue's methods", f.rec.get("impl_self_adt") == MQ, f.loc(bb))
    return n


def rule_under_lock_effects(ctx, rule):
    facts = ctx.facts
    roles.bind(facts)
    n = 0
    for f in mq_fns(facts):
        locks = f.call_blocks(lambda t: call_is(t, LOCK))
        if not locks:
            continue
        insts = [i for i in facts.instances_of(f.id) if not i["generic"]]
        ctx.require(insts, "%s: no monomorphic instance of %s" % (rule, f.id))
        for inst in insts:
            for bb, t in f.calls():
                if f.blocks[bb]["cleanup"]:
                    continue
                if not any(f.dominates(l, bb, unwind=False) for l in locks) or bb in locks:
                    continue
                n += 1
                ctx.call_sites += 1
                eff = facts.call_effects(inst, bb) & FORBIDDEN_UNDER_LOCK
                ctx.ob(rule, "%s|under-lock|%s" % (f.id, short(call_name(t))), "while the queue lock is held nothing blocks on I/O, channels, other threads or user code",
                       not eff, f.loc(bb), None if not eff else "effects %s via %s" % (sorted(eff), " -> ".join(facts.effect_witness(
                           [to for _, _, to, _ in facts.inst_callees(inst, bb) if to is not None][0], sorted(eff)[0])[:6])))
            for bb, t in f.drops():
                if f.blocks[bb]["cleanup"] or not any(f.dominates(l, bb, unwind=False) for l in locks):
                    continue
                if "MutexGuard" in t["ty"]:
                    continue
                n += 1
                eff = facts.call_effects(inst, bb) & FORBIDDEN_UNDER_LOCK
                ctx.ob(rule, "%s|under-lock|drop %s" % (f.id, short(t["ty"])[:60]), "no value with a blocking destructor is dropped while the queue lock is held",
                       not eff, f.loc(bb), None if not eff else "effects %s" % sorted(eff))
    return n
