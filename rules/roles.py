"""Anchors of the rule tables, bound by role wherever the role is expressible in facts.

ADT and field names, trait impls and public API names are the vocabulary of the properties;
private helpers are found through what they do (which field they touch, what they call)."""
from core import CheckerError, call_is, call_name, origin_walk, pl_fields, op_place

SW = "util::sequential::SequentialWriter"
SWB = "util::sequential::SequentialWriterBuilder"
SR = "util::sequential::SequentialReader"
SRB = "util::sequential::SequentialReaderBuilder"
SRI = "util::sequential::SequentialReaderInner"
REQ = "request::Request"
RESP = "response::Response"
CC = "client::ClientConnection"
MQ = "util::messages_queue::MessagesQueue"
CTRL = "util::messages_queue::Control"
TP = "util::task_pool::TaskPool"
SHARING = "util::task_pool::Sharing"
REG = "util::task_pool::Registration"
ER = "util::equal_reader::EqualReader"
FR = "util::fused_reader::FusedReader"
RTS = "util::refined_tcp_stream::RefinedTcpStream"
STREAM = "util::refined_tcp_stream::Stream"
SERVER = "Server"
READERR = "client::ReadError"
TE = "response::TransferEncoding"
HV = "common::HTTPVersion"
METHOD = "common::Method"
HEADER = "common::Header"
HFIELD = "common::HeaderField"
STATUS = "common::StatusCode"

T_WRITE = "std::io::Write"
T_READ = "std::io::Read"
T_DROP = "std::ops::Drop"
T_ITER = "std::iter::Iterator"
T_CLONE = "std::clone::Clone"
T_COPY = "std::marker::Copy"
T_FROMSTR = "std::str::FromStr"

RECV = "std::sync::mpsc::Receiver::<T>::recv"
SEND = "std::sync::mpsc::Sender::<T>::send"
LOCK = "std::sync::Mutex::<T>::lock"
CHANNEL = "std::sync::mpsc::channel"
CV_WAIT = "std::sync::Condvar::wait"
CV_WAIT_T = "std::sync::Condvar::wait_timeout"
CV_WAIT_WHILE = ("std::sync::Condvar::wait_while", "std::sync::Condvar::wait_timeout_while")     # std runs the predicate loop itself
CV_NOTIFY = ("std::sync::Condvar::notify_one", "std::sync::Condvar::notify_all")


def method(facts, trait, adt, name):
    p = facts.trait_method(trait, adt, name)
    if p is None and trait == "std::ops::Drop" and name == "drop":
        g = drop_glue(facts, adt)
        if g is not None:
            return g
    if p is None:
        raise CheckerError("anchor not found: <%s as %s>::%s" % (adt, trait, name))
    return facts.fn(p)


def drop_glue(facts, adt):
    """A struct of the crate that has no `Drop` impl of its own but fields (of types of the crate) that have one is destroyed by destroying
    those fields in declaration order: that sequence as a body of its own, so that "what happens when a value of this type is dropped" is
    one function to read whether the destructor is written on the type or on a part of it.  None when no field has a destructor."""
    import re as _re
    from core import Fn
    a = facts.adts.get(adt)
    if a is None or a["kind"] != "Struct":
        return None
    cache = facts.__dict__.setdefault("_drop_glue", {})
    if adt in cache:
        return cache[adt]
    parts = []
    for x in a["variants"][0]["fields"]:
        fa = _re.sub(r"<.*$", "", x["ty"])
        if fa in facts.adts and str(facts.adts[fa].get("file", "")).startswith("src/"):
            d = facts.trait_method("std::ops::Drop", fa, "drop")
            g = facts.fns.get(d) if d else drop_glue(facts, fa)
            if g is not None:
                parts.append((x["name"], x["ty"], g))
    if not parts:
        cache[adt] = None
        return None
    # the self type as the other impls of the type spell it (`util::sequential::SequentialWriter<W>`)
    selfs = sorted({i.get("self_ty") or "" for i in facts.impls if i.get("self_adt") == adt and i.get("self_ty")})
    sty = selfs[0] if selfs else adt
    sid = "<%s as std::ops::Drop>::drop" % sty
    line = a.get("line", 0)
    L = lambda ty, nm=None: {"ty": ty, "adt": None, "name": nm, "mut": True}
    locs = [L("()"), L("&mut " + sty, "self")]
    blocks = []
    for k, (fname, fty, g) in enumerate(parts):
        r = len(locs)
        locs.append(L("&mut " + fty))
        locs.append(L("()"))
        t = {"t": "call", "line": line, "exp": False, "callee": g.id, "callee_krate": "tiny_http", "gargs": [], "name": "drop", "res": g.id, "res_krate": "tiny_http", "res_kind": "item",
             "res_name": g.id, "args": [{"k": "move", "pl": {"l": r, "p": []}}], "arg_tys": ["&mut " + fty], "dest": {"l": r + 1, "p": []}, "target": k + 1, "unwind": "continue", "fn_exp": False, "syn": True}
        c = [i for i in facts.instances_of(g.id) if i["kind"] == "item"]
        if len(c) == 1:
            t["syn_to"] = c[0]["id"]
        blocks.append({"cleanup": False, "stmts": [{"s": "assign", "line": line, "exp": False, "lhs": {"l": r, "p": []},
                                                     "rhs": {"rv": "ref", "mut": True, "pl": {"l": 1, "p": ["*", {"f": 0, "n": fname, "ty": fty}]}}, "syn": True}], "term": t})
    blocks.append({"cleanup": False, "stmts": [], "term": {"t": "return", "line": line, "exp": False}})
    mir = {"blocks": blocks, "locals": locs, "argc": 1, "file": a.get("file"), "line": line}
    if a.get("real_file"):
        mir["real_file"] = a["real_file"]
    rec = {"id": sid, "local": True, "synthetic": True, "def_kind": "AssocFn", "promoted": [], "mir": mir, "vis_pub": False, "impl_self_adt": adt, "impl_self": sty,
           "impl_trait": "std::ops::Drop", "name": "drop"}
    g = Fn(facts, rec)
    facts.fns[sid] = g
    cache[adt] = g
    return g


def origin_fields(o):
    """set of field names mentioned anywhere in an origin tree"""
    return {x[2] for x in origin_walk(o) if x[0] == "field"}


def arg_origin_fields(f, t, i=0):
    if i >= len(t["args"]):
        return set()
    return origin_fields(f.origin(t["args"][i]))


def inherent(facts, adt, name):
    """an inherent associated fn `adt::name` (generic params printed as ::<..> are ignored)"""
    import re
    r = re.compile(r"^" + re.escape(adt) + r"(::<[^>]*>)?::" + re.escape(name) + r"$")
    xs = [f for k, f in facts.local_fns.items() if r.match(k)]
    if len(xs) != 1:
        raise CheckerError("anchor not found (or ambiguous): %s::%s (%d matches)" % (adt, name, len(xs)))
    return xs[0]


def bind(facts):
    """compute role-derived effect tags (idempotent)"""
    if getattr(facts, "_roles_bound", False):
        return
    tags = {}
    # WAIT-TURN-W: a local function that receives on the `trigger` channel of a SequentialWriter
    # WAIT-TURN-R: ... on the `Waiting(recv)` channel of a SequentialReader
    # (directly, or through private helpers of the same file: a generic `Turn::wait` shared by both sides)
    recv_fns = {f.id for f, bb, t in facts.all_calls(lambda t: call_is(t, RECV))}
    def reaches_recv(fid, file, seen):
        if fid in recv_fns:
            return True
        if fid in seen:
            return False
        seen.add(fid)
        g = facts.fns.get(fid)
        if g is None or not g.rec.get("local") or g.file != file:
            return False
        for bb, t in g.calls():
            c = call_name(t)
            if c in facts.local_fns and reaches_recv(c, file, seen):
                return True
        return any(reaches_recv(c, file, seen) for c in facts.local_fns if c.startswith(fid + "::{closure"))
    for k, f in facts.local_fns.items():
        impl_adt = f.rec.get("impl_self_adt")
        if impl_adt in (SW, SR) and reaches_recv(k, f.file, set()):
            tags.setdefault(f.id, set()).add("WAIT-TURN-W" if impl_adt == SW else "WAIT-TURN-R")
    facts.def_tags.update(tags)
    facts._roles_bound = True
    facts.turn_wait_fns = tags
