"""Anchors of the rule tables, bound by role wherever the role is expressible in facts.

ADT and field names, trait impls and public API names are the vocabulary of the properties;
private helpers are found through what they do (which field they touch, what they call)."""
from core import CheckerError, call_is, call_name, origin_walk, pl_fields, op_place

SW = "util::sequential::SequentialWriter"
SWB = "util::sequential::SequentialWriterBuilder"
SR = "util::sequential::SequentialReader"
SRB = "util::sequential::SequentialReaderBuilder"
SRI = "util::sequential::SequentialReaderInner"
REQ = "request::Request"
RESP = "response::Response"
CC = "client::ClientConnection"
MQ = "util::messages_queue::MessagesQueue"
CTRL = "util::messages_queue::Control"
TP = "util::task_pool::TaskPool"
SHARING = "util::task_pool::Sharing"
REG = "util::task_pool::Registration"
ER = "util::equal_reader::EqualReader"
FR = "util::fused_reader::FusedReader"
RTS = "util::refined_tcp_stream::RefinedTcpStream"
STREAM = "util::refined_tcp_stream::Stream"
SERVER = "Server"
READERR = "client::ReadError"
TE = "response::TransferEncoding"
HV = "common::HTTPVersion"
METHOD = "common::Method"
HEADER = "common::Header"
HFIELD = "common::HeaderField"
STATUS = "common::StatusCode"

T_WRITE = "std::io::Write"
T_READ = "std::io::Read"
T_DROP = "std::ops::Drop"
T_ITER = "std::iter::Iterator"
T_CLONE = "std::clone::Clone"
T_COPY = "std::marker::Copy"
T_FROMSTR = "std::str::FromStr"

RECV = "std::sync::mpsc::Receiver::<T>::recv"
SEND = "std::sync::mpsc::Sender::<T>::send"
LOCK = "std::sync::Mutex::<T>::lock"
CHANNEL = "std::sync::mpsc::channel"
CV_WAIT = "std::sync::Condvar::wait"
CV_WAIT_T = "std::sync::Condvar::wait_timeout"
CV_WAIT_WHILE = ("std::sync::Condvar::wait_while", "std::sync::Condvar::wait_timeout_while")     # std runs the predicate loop itself
CV_NOTIFY = ("std::sync::Condvar::notify_one", "std::sync::Condvar::notify_all")


def method(facts, trait, adt, name):
    p = facts.trait_method(trait, adt, name)
    if p is None:
        raise CheckerError("anchor not found: <%s as %s>::%s" % (adt, trait, name))
    return facts.fn(p)


def origin_fields(o):
    """set of field names mentioned anywhere in an origin tree"""
    return {x[2] for x in origin_walk(o) if x[0] == "field"}


def arg_origin_fields(f, t, i=0):
    if i >= len(t["args"]):
        return set()
    return origin_fields(f.origin(t["args"][i]))


def inherent(facts, adt, name):
    """an inherent associated fn `adt::name` (generic params printed as ::<..> are ignored)"""
    import re
    r = re.compile(r"^" + re.escape(adt) + r"(::<[^>]*>)?::" + re.escape(name) + r"$")
    xs = [f for k, f in facts.local_fns.items() if r.match(k)]
    if len(xs) != 1:
        raise CheckerError("anchor not found (or ambiguous): %s::%s (%d matches)" % (adt, name, len(xs)))
    return xs[0]


def bind(facts):
    """compute role-derived effect tags (idempotent)"""
    if getattr(facts, "_roles_bound", False):
        return
    tags = {}
    # WAIT-TURN-W: a local function that receives on the `trigger` channel of a SequentialWriter
    # WAIT-TURN-R: ... on the `Waiting(recv)` channel of a SequentialReader
    # (directly, or through private helpers of the same file: a generic `Turn::wait` shared by both sides)
    recv_fns = {f.id for f, bb, t in facts.all_calls(lambda t: call_is(t, RECV))}
    def reaches_recv(fid, file, seen):
        if fid in recv_fns:
            return True
        if fid in seen:
            return False
        seen.add(fid)
        g = facts.fns.get(fid)
        if g is None or not g.rec.get("local") or g.file != file:
            return False
        for bb, t in g.calls():
            c = call_name(t)
            if c in facts.local_fns and reaches_recv(c, file, seen):
                return True
        return any(reaches_recv(c, file, seen) for c in facts.local_fns if c.startswith(fid + "::{closure"))
    for k, f in facts.local_fns.items():
        impl_adt = f.rec.get("impl_self_adt")
        if impl_adt in (SW, SR) and reaches_recv(k, f.file, set()):
            tags.setdefault(f.id, set()).add("WAIT-TURN-W" if impl_adt == SW else "WAIT-TURN-R")
    facts.def_tags.update(tags)
    facts._roles_bound = True
    facts.turn_wait_fns = tags
