"""Worker-pool rules shared by C08 and C20, bound by structure and role instead of private names:

  shared state  = the local struct with a `Mutex<VecDeque<Box<dyn FnMut..>>>` (task queue), a `Condvar` and atomic counters
  pool          = the local struct holding an `Arc<shared state>`
  dispatch      = the pool method taking a boxed task that is called from outside the pool
  worker        = the closure handed to `thread::spawn` by the pool's code
  idle counter  = the atomic the worker increments (directly or through an RAII guard) before it parks on the condvar
  live counter  = the atomic the worker increments once when it starts

All bodies are analysed with their crate-local helpers spliced in (inline.py).
"""
import re
from core import *  # noqa
from roles import *  # noqa
import roles, shared, symex, inline, absint
import queue_rules as Q

ATOMIC_RMW = r"atomic::Atomic(?:::<usize>|Usize)::(store|fetch_add|fetch_sub|swap|compare_exchange\w*|fetch_update|fetch_max|fetch_min)$"
ATOMIC_LOAD = r"atomic::Atomic(?:::<usize>|Usize)::load$"
THREAD_SPAWN = r"^std::thread::(spawn|Builder::spawn\w*)$"
TASK_CALL = ("std::ops::FnMut::call_mut", "std::ops::FnOnce::call_once", "std::ops::Fn::call")


TASK_DEQUE = r"^std::collections::VecDeque<std::boxed::Box<\(?dyn .*Fn"


def find_pool(facts):
    """-> ((shared adt, mutex field, condvar field, atomic counters, locked adt or None, deque path inside the mutex, locked counters), pool adt)"""
    sh = []
    for aid, a in sorted(facts.adts.items()):
        if a["kind"] != "Struct":
            continue
        fs = a["variants"][0]["fields"]
        cv = [x["name"] for x in fs if x["ty"] == "std::sync::Condvar"]
        # the atomic counters of the shared state, also when they are grouped in a private struct or wrapped in a private newtype: each is
        # named by the last proper field name on its path (`workers.waiting.0` -> waiting)
        apaths = shared.find_slot_paths(facts, aid, r"^std::sync::atomic::(AtomicUsize|Atomic<usize>)$")
        ctr = []
        for pth in apaths:
            names = [seg for seg in pth if not seg.isdigit()]
            if names:
                ctr.append(names[-1])
        todo = []
        for x in fs:
            m = re.match(r"^std::sync::Mutex<(.*)>$", x["ty"])
            if not m:
                continue
            inner = m.group(1)
            if re.match(TASK_DEQUE, inner):
                todo.append((x["name"], None, (), []))
            elif inner in facts.adts and facts.adts[inner]["kind"] == "Struct":
                # the queue kept together with other state under one lock
                dq = shared.find_slot_paths(facts, inner, TASK_DEQUE)
                if len(dq) == 1:
                    locked = [y["name"] for y in facts.adts[inner]["variants"][0]["fields"] if y["ty"] == "usize"]
                    todo.append((x["name"], inner, dq[0], locked))
        if len(todo) == 1 and len(cv) == 1:
            sh.append((aid, todo[0][0], cv[0], ctr, todo[0][1], todo[0][2], todo[0][3]))
    if len(sh) != 1:
        raise CheckerError("pool rules: expected exactly one shared pool state (a Mutex around the queue of boxed tasks + a Condvar), found %s" % [x[0] for x in sh])
    sh = sh[0]
    tps = [aid for aid, a in sorted(facts.adts.items()) if a["kind"] == "Struct" and aid != sh[0] and any(sh[0] in x["ty"] for x in a["variants"][0]["fields"])]
    if len(tps) > 1:
        # the pool is the holder that the rest of the crate uses (a private worker object may hold the shared state as well)
        used = []
        for tp in tps:
            ms = [f for k, f in facts.local_fns.items() if f.rec.get("impl_self_adt") == tp]
            if any(g.file != facts.adt(tp)["file"] for m_ in ms for g, bb, t in facts.callers_of(m_.id)):
                used.append(tp)
        tps = used
    if len(tps) != 1:
        raise CheckerError("pool rules: expected exactly one pool type holding %s, found %s" % (sh[0], tps))
    return sh, tps[0]


def closures_spawned(f):
    """closure def paths handed to thread::spawn in f -> list of (bb, closure def)"""
    out = []
    for bb, t in f.calls():
        if call_matches(t, THREAD_SPAWN) and t["args"]:
            o = f.origin(t["args"][-1] if "Builder" in call_name(t) else t["args"][0])
            if o[0] == "agg" and "{closure#" in str(o[1]):
                out.append((bb, o[1]))
            else:
                out.append((bb, None))
    return out


class PoolModel:
    def __init__(self, facts):
        self.facts = facts
        (self.sh, self.todo_field, self.cv_field, self.atomics, self.locked_adt, self.dq_path, self.locked_counters), self.tp = find_pool(facts)
        self.counters = list(self.atomics) + list(self.locked_counters)
        self.file = facts.adt(self.tp)["file"]
        self.methods = [f for k, f in sorted(facts.local_fns.items()) if f.rec.get("impl_self_adt") == self.tp and f.rec["def_kind"] == "AssocFn"]
        cands = []
        for m in self.methods:
            # the task: a boxed closure, or a value of a type parameter of the method (`spawn<F: FnOnce()>(&self, code: F)`, boxed inside)
            takes_task = any((re.search(r"Box<\(?dyn .*Fn", l["ty"]) and not l["ty"].startswith("std::option::Option")) or
                             (re.match(r"^[A-Z]\w*$", l["ty"]) and l["ty"] not in facts.adts) for l in m.locals[1:1 + m.argc])
            outside = [g for g, bb, t in facts.callers_of(m.id) if g.rec.get("impl_self_adt") != self.tp]
            if takes_task and outside:
                cands.append(m)
        if len(cands) != 1:
            raise CheckerError("pool rules: dispatch method of %s not found (%s)" % (self.tp, [c.id for c in cands]))
        self.dispatch = cands[0]
        self.f_dispatch = inline.inlined(facts, self.dispatch.id, extern_ok=Q.std_small)
        ctor = [m for m in self.methods if m.argc == 0 and m.locals[0]["ty"] == self.tp]
        self.ctor = ctor[0] if len(ctor) == 1 else None
        self.f_ctor = inline.inlined(facts, self.ctor.id, extern_ok=Q.std_small) if self.ctor else None
        ws = set()
        for f in [self.f_dispatch] + ([self.f_ctor] if self.f_ctor else []):
            for bb, c in closures_spawned(f):
                ws.add(c)
        if len(ws) != 1 or None in ws:
            raise CheckerError("pool rules: worker closure not found (thread::spawn closures: %s)" % sorted(map(str, ws)))
        self.worker_def = ws.pop()
        self.w = inline.inlined(facts, self.worker_def, extern_ok=Q.std_small)
        self.drop = facts.fn_opt(facts.trait_method(T_DROP, self.tp, "drop") or "")
        self._counter_events = {}
        self._bind_counters()

    def statistics(self):
        """counters that are statistics, not registrations: atomics that nothing in the crate ever reads (no load / compare / swap, no
        use of what a read-modify-write returns), decrements or overwrites: they cannot influence anything"""
        if hasattr(self, "_stats"):
            return self._stats
        facts = self.facts
        busy = set()
        for k, g in facts.local_fns.items():
            incs, decs, others = self.counter_events(g)
            for bb, c, how in decs + others:
                busy.add(c)
            for bb, c, how in incs:
                t = g.term(bb)
                if t["t"] == "call" and not t["dest"]["p"] and g.uses().get(t["dest"]["l"]):
                    busy.add(c)
            for bb, t in g.calls():
                if re.search(r"atomic::Atomic(?:::<usize>|Usize)::(load|into_inner|get_mut)$", call_name(t)) and t["args"]:
                    c = self.counter_of(g, g.origin(t["args"][0]))
                    if c:
                        busy.add(c)
        self._stats = [c for c in self.atomics if c not in busy]
        return self._stats

    # -- counters -----------------------------------------------------------------------------
    def counter_of(self, f, o):
        fs = origin_fields(o) & set(self.counters)
        return sorted(fs)[0] if len(fs) == 1 else None

    def guard_adts(self):
        """local ADTs with a Drop impl that decrements the atomic they refer to: {adt: drop fn}"""
        if hasattr(self, "_guards"):
            return self._guards
        out = {}
        for imp in self.facts.impls_of(T_DROP):
            adt = imp.get("self_adt")
            p = self.facts.trait_method(T_DROP, adt, "drop") if adt else None
            g = self.facts.fn_opt(p) if p else None
            if g is None or not g.rec.get("local"):
                continue
            subs = [t for bb, t in g.calls() if re.search(r"atomic::Atomic(?:::<usize>|Usize)::fetch_sub$", call_name(t))]
            if len(subs) == 1 and op_const(subs[0]["args"][1]) == 1 and not self.counter_of(g, g.origin(subs[0]["args"][0])):
                out[adt] = g
        self._guards = out
        return out

    def wrapper_adts(self):
        """private newtypes / structs of the crate whose only content is one atomic counter (`struct Counter(AtomicUsize)`)"""
        if hasattr(self, "_wrappers"):
            return self._wrappers
        out = set()
        for aid, a in self.facts.adts.items():
            if a["kind"] == "Struct" and a.get("file") == self.file:
                fs = a["variants"][0]["fields"]
                if len(fs) == 1 and fs[0]["ty"] in ("std::sync::atomic::AtomicUsize", "std::sync::atomic::Atomic<usize>") and aid != self.sh:
                    out.add(aid)
        self._wrappers = out
        return out

    def counter_events(self, f):
        """(incs, decs) in f: lists of (bb, counter field, how)"""
        if f.id + str(getattr(f, "is_inlined", False)) in self._counter_events:
            return self._counter_events[f.id + str(getattr(f, "is_inlined", False))]
        incs, decs, others = [], [], []
        for bb, t in f.calls():
            m = re.search(ATOMIC_RMW, call_name(t))
            if not m:
                continue
            c = self.counter_of(f, f.origin(t["args"][0]))
            if c is None:
                continue
            if m.group(1) == "fetch_add" and op_const(t["args"][1]) == 1:
                incs.append((bb, c, "fetch_add"))
            elif m.group(1) == "fetch_sub" and op_const(t["args"][1]) == 1:
                decs.append((bb, c, "fetch_sub"))
            else:
                others.append((bb, c, m.group(1)))
        # counters kept under the queue's lock: `state.idle += 1` / `-= 1`
        for bb, i, st in f.assigns():
            fl = pl_fields(st["lhs"])
            if not fl or fl[-1] not in self.locked_counters:
                continue
            step = self._step_of(f, st["rhs"], fl[-1])
            if step == 1:
                incs.append((bb, fl[-1], "+= 1"))
            elif step == -1:
                decs.append((bb, fl[-1], "-= 1"))
            else:
                others.append((bb, fl[-1], "assignment"))
        guards = self.guard_adts()
        for bb, t in f.drops():
            if t.get("adt") in guards and not t["pl"]["p"]:
                c = self.counter_of(f, f.origin_local(t["pl"]["l"]))
                if c:
                    decs.append((bb, c, "guard-drop"))
        self._counter_events[f.id + str(getattr(f, "is_inlined", False))] = (incs, decs, others)
        return incs, decs, others

    def _step_of(self, f, rhs, fld):
        """+1 / -1 when rhs is `<this counter> + 1` / `- 1` (checked or unchecked arithmetic), else None"""
        o = None
        if rhs["rv"] == "use":
            o = f.origin(rhs["op"])
        elif rhs["rv"] == "binop":
            o = ("binop", rhs["op"], f.origin(rhs["a"]), f.origin(rhs["b"]))
        while o and o[0] == "field" and o[2] == "0":
            o = o[1]
        if o and o[0] == "binop" and o[1] in ("Add", "AddWithOverflow", "AddUnchecked", "Sub", "SubWithOverflow", "SubUnchecked"):
            if fld in origin_fields(o[2]) and o[3][0] == "const" and o[3][1] == 1:
                return 1 if o[1].startswith("Add") else -1
        return None

    def reads_counter(self, f, o, fld):
        """does the origin read counter `fld` (an atomic load of it, or the plain field under the lock)?"""
        for x in origin_calls(o):
            if re.search(ATOMIC_LOAD, x[1]) and any(self.counter_of(f, a) == fld for a in x[2]):
                return True
        if fld in self.locked_counters:
            return any(y[0] == "field" and y[2] == fld for y in origin_walk(o))
        return False

    def _bind_counters(self):
        w = self.w
        incs, decs, _ = self.counter_events(w)
        waits = [bb for bb, t in w.calls() if call_is(t, CV_WAIT, CV_WAIT_T)]
        idle = sorted({c for bb, c, how in incs if w.in_loop(bb) and waits and all(w.dominates(bb, x, unwind=False) for x in waits)})
        live = sorted({c for bb, c, how in incs if not w.in_loop(bb)})
        self.idle_field = idle[0] if len(idle) == 1 else None
        self.live_field = live[0] if len(live) == 1 else None


def model(facts):
    if not hasattr(facts, "_pool_model"):
        facts._pool_model = PoolModel(facts)
    return facts._pool_model


def guard_locals(f):
    return {i for i, l in enumerate(f.locals) if l["ty"].startswith("std::sync::MutexGuard<")}


def todo_calls(f, name=None):
    return Q.dq_calls(f, name)


# ------------------------------------------------------------------------------------------------

def rule_counter_discipline(ctx, rule):
    """every increment of a worker counter is paired with a decrement on every way out (normal exit, early return, unwinding);
    nothing else writes the counters except the pool's destructor"""
    facts = ctx.facts
    P = model(facts)
    n = 0
    # 1. crate-wide census of writes
    for g, bb, t in facts.all_calls(lambda t: bool(re.search(ATOMIC_RMW, call_name(t)))):
        c = P.counter_of(g, g.origin(t["args"][0]))
        in_guard = g.rec.get("impl_self_adt") in P.guard_adts() or any(g.id == d.id for d in P.guard_adts().values())
        in_wrapper = g.rec.get("impl_self_adt") in P.wrapper_adts()
        if c is None and not in_guard and not in_wrapper:
            continue
        n += 1
        op = re.search(ATOMIC_RMW, call_name(t)).group(1)
        if in_wrapper and not in_guard and c is None:
            # a method of the private counter type: stepping by one is what workers do; overwriting is reserved to the pool's destructor
            if op in ("fetch_add", "fetch_sub"):
                ok = g.file == P.file and op_const(t["args"][1]) == 1
                ctx.ob(rule, "counter-write|%s" % g.id, "the worker counters are stepped by one, and only by the pool's own code", ok, g.loc(bb))
            else:
                callers = facts.callers_of(g.id)
                ok = P.drop is not None and bool(callers) and all(shared.private_to(facts, P.drop.id, h.id) for h, b2, t2 in callers)
                ctx.ob(rule, "counter-write|%s" % g.id, "the worker counters are overwritten only by the pool's destructor", ok, g.loc(bb))
            continue
        if in_guard:
            ok = op in ("fetch_add", "fetch_sub") and op_const(t["args"][1]) == 1
            ctx.ob(rule, "counter-write|%s" % g.id, "the registration guard increments by one on creation and decrements by one on drop", ok, g.loc(bb))
        elif op in ("fetch_add", "fetch_sub"):
            ok = g.file == P.file and op_const(t["args"][1]) == 1
            ctx.ob(rule, "counter-write|%s" % g.id, "the worker counters are stepped by one, and only by the pool's own code", ok, g.loc(bb))
        else:
            ok = P.drop is not None and shared.private_to(facts, P.drop.id, g.id)
            ctx.ob(rule, "counter-write|%s" % g.id, "the worker counters are overwritten only by the pool's destructor", ok, g.loc(bb))
    # 2. pairing inside the worker (helpers spliced in)
    w = P.w
    incs, decs, others = P.counter_events(w)
    for i, (bb, c, how) in enumerate(incs):
        if c in P.statistics():
            continue
        dd = {b for b, c2, h in decs if c2 == c}
        # a counter that lives under the queue's lock is only ever stepped with the lock held: a panic at that point poisons the mutex and
        # ends the pool, so only the normal ways out matter for it
        unw = c not in P.locked_counters
        r_ = w.reach([w.normal_target(bb)] if w.term(bb)["t"] == "call" else w.succs(bb, False), blocked=dd, unwind=unw)
        leaks = [x for x in r_ if w.term(x)["t"] in ("return", "resume")]
        again = bb in r_
        ok = bool(dd) and not leaks and not again
        n += 1
        ctx.paths += 1
        ctx.ob(rule, "%s|%s|released-on-every-exit" % (P.worker_def, "idle-count" if c == P.idle_field else ("live-count" if c == P.live_field else c)),
               "a worker's registration in a counter is given back on every way out: normal exit, early return, unwinding (a manual increment/decrement pair that misses an early return leaks the count)",
               ok, w.loc(bb), None if ok else ("path from the increment to an exit without the decrement: %s" % w.path([w.normal_target(bb)] if w.term(bb)["t"] == "call" else w.succs(bb, False), leaks, blocked=dd, unwind=unw) if leaks else "incremented again before the decrement"))
    return n


def rule_dispatch(ctx, rule):
    """C08.1: the queue-or-new-thread decision accounts for the tasks already queued"""
    facts = ctx.facts
    P = model(facts)
    f = P.f_dispatch
    key = P.dispatch.id
    ctx.touch(f)
    pushes = Q.deque_calls(f, "push_back")
    starts = [bb for bb, t in f.calls() if call_matches(t, THREAD_SPAWN)]
    where = "%s:%d" % (f.file, f.line)
    if not pushes and not starts:
        ctx.ob(rule, "%s|promise-accounting" % key, "dispatch either queues the task for an idle worker or starts a worker for it", False, where, "neither happens")
        return
    if not pushes:
        ctx.ob(rule, "%s|promise-accounting" % key, "dispatch never queues a connection for an idle worker (always a new thread): no promise to account for", True, where, nontrivial=False)
        return
    if not starts:
        ctx.ob(rule, "%s|promise-accounting" % key, "dispatch can start a new worker when no idle one is available", False, where, "dispatch only ever queues: with every worker busy a new connection waits for another one to end")
        return
    if P.idle_field is None:
        ctx.ob(rule, "%s|idle-counter" % P.worker_def, "the worker counts itself idle (one atomic counter, incremented inside its loop before every wait)", False, "%s:%d" % (P.w.file, P.w.line))
        return
    deciding = []
    for bb in sorted(f.live_blocks()):
        if f.term(bb)["t"] != "switch" or f.blocks[bb]["cleanup"]:
            continue
        succ = f.succs(bb, False)
        reach = [f.reach([s], unwind=False) for s in succ]
        can_push = [bool(r & set(pushes)) for r in reach]
        can_start = [bool(r & set(starts)) for r in reach]
        if any(can_push) and any(can_start) and (can_push != can_start or not all(can_push)):
            deciding.append(bb)
    reads_idle = reads_queue = claims = False
    for bb in deciding:
        o = f.origin(f.term(bb)["discr"])
        if P.reads_counter(f, o, P.idle_field):
            reads_idle = True
        for x in origin_calls(o):
            if re.search(r"VecDeque::<T(, A)?>::(len|is_empty)$", x[1]):
                reads_queue = True
    # alternative accepted protocol: the enqueue branch claims a worker by decrementing the idle counter itself
    for pb in pushes:
        for b2 in f.reach([pb], unwind=False):
            t = f.term(b2)
            if t["t"] == "call" and re.search(r"fetch_sub$", call_name(t)) and P.counter_of(f, f.origin(t["args"][0])) == P.idle_field:
                claims = True
        if any(c == P.idle_field and b2 in f.reach([pb], unwind=False) for b2, c, h in P.counter_events(f)[1]):
            claims = True
    ok = bool(deciding) and reads_idle and (reads_queue or claims)
    ctx.ob(rule, "%s|promise-accounting" % key,
           "the decision to queue a connection for an idle worker accounts for the connections already queued (each parked worker is promised to at most one task)",
           ok, f.loc(deciding[0]) if deciding else where, None if ok else "deciding condition reads idle-counter=%s queued-count=%s claim-on-enqueue=%s: a burst of connections is queued for the same idle worker and the rest starve until another connection ends" % (reads_idle, reads_queue, claims))
    nots = set(f.call_blocks(lambda t: call_is(t, *CV_NOTIFY)))
    for pb in pushes:
        reach = f.reach([f.normal_target(pb)], blocked=nots, unwind=False)
        ctx.ob(rule, "%s|enqueue-notifies" % key, "a queued task is announced to a parked worker", bool(nots) and not any(r in reach for r in f.returns()), f.loc(pb))
    # readers of the counters
    for fld in P.counters:
        for g, bb, kind in facts.field_reads(P.locked_adt if fld in P.locked_counters else P.sh, fld):
            ctx.ob(rule, "%s.%s|reader|%s" % (P.sh, fld, g.id), "the worker counters are used only by the pool itself", g.file == P.file, g.loc(bb))


def rule_idle_window(ctx, rule):
    """a worker counts as idle from before it parks until after it woke up"""
    P = model(ctx.facts)
    w = P.w
    incs, decs, _ = P.counter_events(w)
    waits = [bb for bb, t in w.calls() if call_is(t, CV_WAIT, CV_WAIT_T)]
    idle_incs = [bb for bb, c, h in incs if c == P.idle_field]
    ok = P.idle_field is not None and bool(waits) and all(any(w.dominates(i, x, unwind=False) for i in idle_incs) for x in waits)
    if ok:
        # not given back between the increment and the wait
        dd = {b for b, c, h in decs if c == P.idle_field}
        for i in idle_incs:
            r_ = w.reach([w.normal_target(i)], blocked=dd, unwind=False)
            if not all(x in r_ for x in waits if w.dominates(i, x, unwind=False)):
                ok = False
    ctx.ob(rule, "%s|idle-count-guarded" % P.worker_def, "a worker counts as idle from just before it parks until it has woken up", ok, "%s:%d" % (w.file, w.line))


def rule_nothing_under_lock(ctx, rule, forbidden):
    facts = ctx.facts
    P = model(facts)
    n = 0
    for key, g in ((P.dispatch.id, P.f_dispatch), (P.worker_def, P.w)):
        IN = maybe_init(g)
        gl = guard_locals(g)
        if not gl:
            ctx.ob(rule, "%s|takes-the-lock" % key, "the task queue is accessed under its lock", False, "%s:%d" % (g.file, g.line))
            continue
        ctx.touch(g)
        for bb, t in g.calls():
            if g.blocks[bb]["cleanup"]:
                continue
            held = init_at_terminator(g, IN, bb) & gl
            if not held:
                continue
            n += 1
            ctx.call_sites += 1
            eff = facts.effects_at(g, bb) & forbidden
            is_task = t.get("callee") in TASK_CALL and any("dyn" in (a or "") for a in t.get("arg_tys", []))
            ok = not eff and not is_task
            ctx.ob(rule, "%s|under-todo-lock|%s" % (key, short(call_name(t))), "while the pool's task-queue lock is held nothing blocks and no task runs", ok, g.loc(bb),
                   None if ok else ("a task is invoked with the lock held" if is_task else "effects %s" % sorted(eff)))
        for bb, t in g.drops():
            if g.blocks[bb]["cleanup"] or "MutexGuard" in t["ty"]:
                continue
            held = (IN[bb] or frozenset()) & gl
            if held and re.search(r"dyn .*Fn", t["ty"]):
                n += 1
                ctx.ob(rule, "%s|under-todo-lock|drop-task" % key, "no task (and the connection it owns) is destroyed while the lock is held", False, g.loc(bb))
    return n


TASK = ("sym", "task")


def _bool_conds(p):
    """the truth values the path assumed for opaque boolean calls: {call name: bool}"""
    out = {}
    for bb, c in p.conds:
        if not c or c[0] != "scalar":
            continue
        v, val = c[1], c[2]
        neg = False
        while v[0] == "unop" and v[1] == "Not":
            v = v[2]
            neg = not neg
        if v[0] == "call" and isinstance(val, bool):
            out.setdefault(v[1], []).append(val != neg)
    return out


def rule_worker_loop(ctx, rule):
    """C08.4: every popped task runs exactly once; a worker exits only after a wait that timed out and with the queue empty"""
    facts = ctx.facts
    P = model(facts)
    w = P.w
    ctx.touch(w)
    pops = Q.deque_calls(w, "pop_front")
    waits = [bb for bb, t in w.calls() if call_is(t, CV_WAIT, CV_WAIT_T)]
    if not pops:
        ctx.ob(rule, "%s|takes-tasks" % P.worker_def, "the worker takes tasks from the queue", False, "%s:%d" % (w.file, w.line))
        return
    def stop(bb, t, st):
        if t["t"] != "call":
            return None
        if bb in pops:
            return "pop"
        if bb in waits:
            return "wait"
    def run_events(p):
        out = []
        for e in p.calls():
            if e[6] in TASK_CALL and e[3]:
                out.append(e[5][0] if e[5][0] is not None else e[3][0])
        return out
    for i, pb in enumerate(pops):
        t = w.term(pb)
        st = symex.Sym(w)
        st.write_key(pl_key(t["dest"]), ("some", TASK))
        paths = [p for p in absint.explore(w, t["target"], st, stop=stop) if p.end[0] not in ("diverge", "resume", "terminate", "unreachable")]
        ctx.paths += len(paths)
        bad = []
        for p in paths:
            runs = run_events(p)
            if len([r for r in runs if absint.contains(r, TASK) or r == TASK]) != 1:
                bad.append("%s after running the popped task %d times" % (Q._ret_str(p), len(runs)))
        ctx.ob(rule, "%s|popped-task-runs|%d" % (P.worker_def, i), "a task taken from the queue is always executed, exactly once, before the worker looks at the queue again or exits",
               bool(paths) and not bad, w.loc(pb), None if not bad else str(bad[:3]))
        # empty queue: the worker parks (or re-checks), it does not exit without having waited
        st = symex.Sym(w)
        st.write_key(pl_key(t["dest"]), ("none",))
        paths = [p for p in absint.explore(w, t["target"], st, stop=stop)]
        bad = [Q._ret_str(p) for p in paths if p.end[0] == "return"]
        ctx.ob(rule, "%s|empty-queue-parks|%d" % (P.worker_def, i), "finding the queue empty makes the worker wait; it does not exit on the spot", not bad, w.loc(pb), None if not bad else str(bad[:2]))
    # from the start: no exit before the first look at the queue
    paths = absint.explore(w, 0, None, stop=stop)
    bad = [Q._ret_str(p) for p in paths if p.end[0] == "return"]
    ctx.ob(rule, "%s|no-exit-before-serving" % P.worker_def, "a worker does not exit before it has looked at the queue", not bad, "%s:%d" % (w.file, w.line), None if not bad else str(bad[:2]))
    # after a wake-up
    for i, wb in enumerate(waits):
        t = w.term(wb)
        timed = call_is(t, CV_WAIT_T)
        paths = absint.explore(w, t["target"], None, stop=stop)
        ctx.paths += len(paths)
        exits = [p for p in paths if p.end[0] == "return"]
        bad_empty, bad_timeout = [], []
        for p in exits:
            bc = _bool_conds(p)
            empty = any(all(v) for k, v in bc.items() if re.search(r"VecDeque::<T(, A)?>::is_empty$", k))
            tout = any(all(v) for k, v in bc.items() if re.search(r"WaitTimeoutResult::timed_out$", k))
            if not empty:
                bad_empty.append(str(sorted(bc.items()))[:200])
            if not (timed and tout):
                bad_timeout.append(str(sorted(bc.items()))[:200])
        ctx.ob(rule, "%s|retire-only-when-empty|wait%d" % (P.worker_def, i), "a worker thread exits only after seeing the task queue empty", not bad_empty, w.loc(wb), None if not bad_empty else "exit path conditions: %s" % bad_empty[:2])
        ctx.ob(rule, "%s|retire-only-after-timeout|wait%d" % (P.worker_def, i), "a worker exits only when its (timed) wait timed out; a notified worker always goes back to the queue", not bad_timeout, w.loc(wb),
               None if not bad_timeout else "exit path conditions: %s" % bad_timeout[:2])
    return len(pops) + len(waits)
