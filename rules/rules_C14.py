"""C14 — no client input aborts the process, panics a thread or forces huge allocation."""
import re
from core import *  # noqa
from roles import *  # noqa
import roles, shared, symex, region, taint, pathsim
import queue_rules as Q

EXPLANATION = (
    "Two analyses over the client-reachable region of the local call graph (entries: connection task, ClientConnection::next, the "
    "Request API and Drop, every Read/Write/Drop impl that can sit inside a Request, Server::recv*). (A) TAINT-BOUND: integers parsed "
    "from client text are followed through locals, arguments, closure returns and struct fields to allocation-size operands; each "
    "tainted sink must be dominated by a comparison with a constant or fed by min(.., K), or every abstract path of the framing decision that reaches "
    "it has assumed such a comparison of the very value it is sized by (not of another header's length). (B) panic-site census: every MIR Assert, "
    "unwrap/expect, panic!/assert!/unreachable!, indexing and panicking arithmetic in the region must be discharged by a static rule "
    "(always-Some constructor, hand-off protocol, lock-poison freedom, typestate of the Request slots, ASCII literal, infeasible on "
    "every variant-consistent path, guarded index/arith, Read-contract accumulator, configuration-dead TLS code); undischarged sites are violations.")
TRUSTED = ["rustc MIR / trait resolution", "std effect table", "inner readers obey the io::Read contract (n <= buf.len())",
           "httpdate formats ASCII; integer Display is ASCII digits", "unwinding (not panic=abort) is not needed for these rules"]

ASCII_FORMATTERS = (r"<httpdate::HttpDate as std::fmt::Display>|httpdate::HttpDate|std::string::ToString::to_string|alloc::fmt::format|std::fmt::format|<T as std::string::ToString>::to_string")


def all_some_ctor(f):
    """does every assignment to the return place build `Some(..)`?"""
    vals = [s for bb, i, s in f.assigns() if s["lhs"] == {"l": 0, "p": []}]
    return bool(vals) and all(s["rhs"]["rv"] == "agg" and s["rhs"].get("adt") == "std::option::Option" and s["rhs"].get("variant") == "Some" for s in vals)


class Discharger:
    def __init__(self, ctx):
        self.ctx = ctx
        self.facts = ctx.facts
        self.ps = {}
        facts = self.facts
        self.swb_next = method(facts, T_ITER, SWB, "next")
        self.srb_next = method(facts, T_ITER, SRB, "next")
        self.some_ctors = {f.id for f in (self.swb_next, self.srb_next) if all_some_ctor(f)}
        self.typestate_ok = self._typestate()
        self.notify_dead = self._notify_dead()
        self.handoff_w = self._handoff_w()
        self.handoff_r = self._handoff_r()

    def sim(self, f):
        k = (f.id, id(f))          # an inlined body shares its root's id: never mix their simulations
        if k not in self.ps:
            self.ps[k] = pathsim.PathSim(f)
        return self.ps[k]

    # ---- supporting facts -------------------------------------------------------------------
    def _typestate(self):
        """the Option slots of Request are emptied only by the extract helpers, whose callers
        all take the Request by value (or are Drop behind an is_some test)"""
        facts = self.facts
        res = {}
        for fld in ("response_writer", "data_reader"):
            ok = True
            emptiers = set()
            for f, bb, kind, x in facts.field_writes(REQ, fld):
                if kind == "construct":
                    continue
                if kind == "mutref":
                    # &mut slot handed to swap/take/replace = emptying; as_mut() = use
                    uses = [u for u in f.uses().get(x["lhs"]["l"], [])]
                    emptying = False
                    seen = {x["lhs"]["l"]}
                    work = [x["lhs"]["l"]]
                    while work:
                        l = work.pop()
                        for u in f.uses().get(l, []):
                            if u[0] == "term" and u[2]["t"] == "call":
                                if call_is(u[2], "std::mem::swap", "std::mem::replace", "std::mem::take", "std::option::Option::<T>::take", "std::option::Option::<T>::replace"):
                                    emptying = True
                            elif u[0] == "stmt" and not u[3]["lhs"]["p"] and u[3]["lhs"]["l"] not in seen:
                                seen.add(u[3]["lhs"]["l"]); work.append(u[3]["lhs"]["l"])
                    if emptying:
                        emptiers.add(f.id)
                elif kind in ("assign", "calldest"):
                    emptiers.add(f.id)
            # callers of the emptiers must consume `self` or be Drop
            for e in emptiers:
                ef = facts.fns[e]
                if ef.rec.get("impl_self_adt") != REQ:
                    ok = False
                for g, bb, t in facts.callers_of(e):
                    self_ty = g.local_ty(1) if g.argc >= 1 else ""
                    by_value = self_ty == "request::Request"
                    is_drop = g.rec.get("impl_trait") == T_DROP
                    helper = g.rec.get("impl_self_adt") == REQ and not g.rec.get("vis_pub")
                    if not (by_value or is_drop or helper):
                        ok = False
                    if helper and not (by_value or is_drop):
                        for g2, bb2, t2 in facts.callers_of(g.id):
                            st2 = g2.local_ty(1) if g2.argc >= 1 else ""
                            if not (st2 == "request::Request" or g2.rec.get("impl_trait") == T_DROP):
                                ok = False
            res[fld] = (ok, emptiers)
        return res

    def _notify_dead(self):
        """the Request's completion-notice slot is armed only on the TLS-only branch (dead in this configuration)"""
        ok, path = shared.notify_slot_dead(self.ctx)
        self.ns = shared.notify_slot(self.facts)
        return ok and self.ns is not None and "ambiguous" not in (self.ns or {})

    def _chain_ok(self, which):
        """the turn-chain rules (C01.2-4 / C09.4) hold: evaluated here again on a private context"""
        import turn_rules as T, engine
        c2 = engine.Ctx("C14", "quick", self.facts, 0)
        try:
            if which == "w":
                T.rule_writer_chain(c2, "wait", "send", "chain")
            else:
                T.rule_reader_chain(c2, "send")
        except CheckerError:
            return False
        # what a `recv().unwrap()` relies on is that the token / the reader is always SENT before the sending end is destroyed (and that
        # the channels are chained as evaluated); in which order a writer waits and locks is another matter (C01.2)
        rel = [o for o in c2.obs if o.rule == "chain" or (o.rule == "send" and (which == "r" or "send-after-own-turn" in o.key or "used-writer" in o.key))]
        return bool(rel) and all(o.ok for o in rel)

    def _handoff_w(self):
        return self._chain_ok("w")

    def _handoff_r(self):
        return self._chain_ok("r")

    def _handoff_w_old(self):
        """C01.3: the writer's Drop always sends the token"""
        f = method(self.facts, T_DROP, SW, "drop")
        sends = {bb for bb, t in f.calls() if call_is(t, SEND)}
        reach = f.reach([0], blocked=sends, unwind=False)
        return bool(sends) and not any(r in reach for r in f.returns())

    def _handoff_r_old(self):
        """C09.4: the reader's Drop sends the socket reader on unless it is in the Empty state"""
        f = method(self.facts, T_DROP, SR, "drop")
        sends = {bb for bb, t in f.calls() if call_is(t, SEND)}
        for bb in sorted(f.live_blocks()):
            sw = switch_on_discr(f, bb)
            if sw and sw[0].get("adt") == SRI and not f.blocks[bb]["cleanup"]:
                rv, m, otherwise, rest = sw
                for v in ("MyTurn", "Waiting"):
                    tgt = m.get(v, otherwise if v in rest else None)
                    if tgt is None:
                        return False
                    reach = f.reach([tgt], blocked=sends, unwind=False)
                    if any(r in reach for r in f.returns()):
                        return False
                return bool(sends)
        return False

    # ---- the rules -----------------------------------------------------------------------------
    def discharge(self, f, bb, kind, t, poison_phase=False):
        """-> (rule id, reason) or None"""
        facts = self.facts
        # D-UBCHECK: compiler-inserted pointer checks of Box::new expansions
        if kind in ("assert:MisalignedPointerDereference", "assert:NullPointerDereference"):
            return ("D-UBCHECK", "compiler-inserted debug check on a freshly allocated Box")
        # D-INFEASIBLE
        ps = self.sim(f)
        if not ps.reachable(bb):
            return ("D-INFEASIBLE", "not reachable on any variant-consistent path")
        name = call_name(t) if t["t"] == "call" else ""
        if t["t"] == "call" and re.search(r"(Option::<T>|Result::<T, E>)::(unwrap|expect)$", name):
            p = op_place(t["args"][0])
            want = "Some" if "Option" in name else "Ok"
            if p is not None:
                sts = ps.states_before_term(bb)
                if sts and all(s.variant(pl_key(p)) == want for s in sts):
                    return ("D-SOME-PATH", "operand is %s on every variant-consistent path" % want)
            o = f.origin(t["args"][0])
            # D-SOME: always-Some constructor
            if o[0] == "call" and o[1] in self.some_ctors:
                return ("D-SOME", "%s returns Some on every path" % short(o[1]))
            # D-HANDOFF
            if (o[0] == "call" and o[1] == RECV) or (origin_has_call(o, r"mpsc::Receiver::<T>::recv$") and not origin_has_call(o, r"::lock$")):
                adt = f.rec.get("impl_self_adt")
                seq_file = facts.adt(SW)["file"]
                rawf = facts.fns.get(f.src_of(bb)) or f
                side = rawf.rec.get("impl_self_adt")
                need_w = side not in (SR, SRB)
                need_r = side not in (SW, SWB)
                if rawf.file == seq_file and (self.handoff_w or not need_w) and (self.handoff_r or not need_r):
                    return ("D-HANDOFF", "inside the turn-taking module: the predecessor's Drop always sends the token / passes the reader on (C01.3, C09.4)")
                if shared.tls_branch_dead(self.ctx, f, bb):
                    return ("D-DEAD-CFG", "HTTPS-only synchronisation; Stream::secure() is constantly false in this configuration")
            # D-HANDOFF through helpers: the value unwrapped comes out of private helpers of the turn-taking module (`self.turn.wait()`,
            # `turn.with(..)`, `turn.take()`); it is an error only on paths on which a channel receive failed
            rawf0 = facts.fns.get(f.src_of(bb)) or f
            if rawf0.file == facts.adt(SW)["file"]:
                side = rawf0.rec.get("impl_self_adt")
                need_w, need_r = side not in (SR, SRB), side not in (SW, SWB)
                if (self.handoff_w or not need_w) and (self.handoff_r or not need_r):
                    cause = self.recv_is_only_cause(rawf0, f.blocks[bb].get("obb", bb) if getattr(f, "is_inlined", False) else bb)
                    if cause:
                        return ("D-HANDOFF", cause)
            # D-POISON
            if o[0] == "call" and (o[1] == LOCK or o[1] in (CV_WAIT, CV_WAIT_T) + CV_WAIT_WHILE):
                if poison_phase:
                    return self.poison(f, bb, t, o)
                return ("DEFER-POISON", "")
            # D-TYPESTATE
            flds = origin_fields(o)
            for fld in ("response_writer", "data_reader"):
                if fld in flds or self._is_swapped_slot(f, t, fld):
                    ok, emptiers = self.typestate_ok[fld]
                    if ok and self._use_before_empty(f, bb, emptiers):
                        return ("D-TYPESTATE", "Request.%s is emptied only by %s, reached only through methods that consume the Request" % (fld, sorted(short(e) for e in emptiers)))
            # D-LITERAL: Header::from_bytes on ASCII constants
            if o[0] == "call" and re.search(r"common::Header::from_bytes$", o[1]):
                r = self.ascii_args(f, o)
                if r:
                    return ("D-LITERAL", r)
            # D-DEAD-CFG: notify sender
            if o[0] == "call" and o[1] == SEND and self._from_notify(f, o) and self.notify_dead:
                return ("D-DEAD-CFG", "the completion-notice slot of the Request is never armed in this configuration (armed only on the HTTPS branch)")
            own = f.rec.get("impl_self_adt")
            if f.rec.get("impl_trait") == T_DROP and own and o[0] == "call" and o[1] == SEND and self.sender_field(own) in flds and self.notify_dead and self._notify_on_drop_dead(own):
                return ("D-DEAD-CFG", "the notice-on-drop wrapper is only built when the completion-notice slot is armed (HTTPS only)")
        if t["t"] == "call" and re.search(r"core::panicking::", name):
            # assert!(slot.is_some()) in the extract helpers / unreachable!() in state machines
            dom = f.dominators(False)
            for b in sorted(dom[bb], key=lambda b: -len(dom[b])):
                bs = bool_switch(f, b)
                if bs:
                    o = f.origin(bs[0])
                    if o[0] == "call" and o[1].endswith("Option::<T>::is_some"):
                        for fld in ("response_writer", "data_reader"):
                            if fld in origin_fields(o):
                                ok, emptiers = self.typestate_ok[fld]
                                if ok:
                                    return ("D-TYPESTATE", "Request.%s is still occupied whenever this helper runs (its callers consume the Request)" % fld)
                    break
            for b in sorted(dom[bb], key=lambda b: -len(dom[b])):
                sw = switch_on_discr(f, b)
                if sw and sw[0].get("adt") in facts.adts:
                    rv, m, otherwise, rest = sw
                    arms = [v for v, tg in m.items() if f.dominates(tg, bb, unwind=False)] + ([r for r in rest] if f.dominates(otherwise, bb, unwind=False) and otherwise not in m.values() else [])
                    if len(arms) == 1:
                        cons = facts.constructions(rv["adt"], arms[0])
                        dropfn = facts.drop_fn(f.rec.get("impl_self_adt")) if f.rec.get("impl_self_adt") else None
                        if cons and dropfn and all(g.id == dropfn.id for g, _, _ in cons):
                            return ("D-STATE", "state %s::%s exists only inside the type's own Drop" % (short(rv["adt"]), arms[0]))
                    break
        if t["t"] == "call" and re.search(r"core::panicking::|begin_panic", name):
            r = self.negated_guard(f, bb)
            if r:
                return r
        if kind == "sort-comparator":
            return self.total_order(f, bb, t)
        if kind == "index":
            rn = t.get("res_name") or ""
            if "RangeFull" in rn:
                return ("D-RANGEFULL", "indexing with `..` cannot fail")
            r = self.guarded_index(f, bb, t)
            if r:
                return r
        if t["t"] == "call" and re.search(r"Vec::<T(, A)?>::insert$", name) and len(t["args"]) >= 2 and op_const(t["args"][1]) == 0:
            return ("D-INSERT0", "insert at index 0 is always in bounds")
        if t["t"] == "call" and re.search(r"Vec::<T(, A)?>::(remove|swap_remove)$", call_name(t)) and len(t["args"]) >= 2:
            # `if let Some(pos) = v.iter().position(..) { v.swap_remove(pos) }`: the index was just found in the same vector
            io = f.origin(t["args"][1])
            recv = origin_fields(f.origin(t["args"][0]))
            for z in origin_walk(io):
                if z[0] == "call" and re.search(r"Iterator>?::(position|rposition)(::<|$)", z[1]) and any(y[0] == "downcast" and y[2] == "Some" for y in origin_walk(io)):
                    src = origin_fields(z[2][0]) if z[2] else set()
                    # no mutation of the vector between the search and the removal
                    pb = z[3]
                    between = f.reach([f.normal_target(pb)], blocked={bb}, unwind=False)
                    mut = [b2 for b2, t2 in f.calls() if b2 in between and b2 != bb and b2 != pb and bb in f.reach([b2], unwind=False) and re.search(r"Vec::<T(, A)?>::(push|insert|remove|swap_remove|clear|truncate|retain|pop|drain|dedup\w*|append|extend\w*)$", call_name(t2))
                           and origin_fields(f.origin(t2["args"][0])) & recv]
                    if recv and src & recv and not mut and f.dominates(pb, bb, unwind=False):
                        return ("D-FOUND-INDEX", "the index was returned by position() on the same vector, which is not changed in between")
        if kind.startswith("assert:Overflow") or kind == "assert:Overflow":
            r = self.read_contract_arith(f, bb, t) or self.digit_arith(f, bb, t) or self.guarded_place_sub(f, bb, t)
            if r:
                return r
        if kind == "arith":
            r = self.guarded_arith(f, bb, t)
            if r:
                return r
        return None

    def total_order(self, f, bb, t):
        """std's sorts panic (since 1.81) when the comparator is not a total order.  Discharged when the comparator
        is `Ord::cmp` / `total_cmp`, or `partial_cmp(..).unwrap_or(Equal)` on a float field after a `retain` that keeps
        only entries for which a comparison of that field with a constant holds (NaN fails every comparison)."""
        facts = self.facts
        clo = f.origin(t["args"][1]) if len(t["args"]) > 1 else ("unknown",)
        if clo[0] != "agg" or clo[1] not in facts.fns:
            return None
        cf = facts.fns[clo[1]]
        ret = cf.origin_place({"l": 0, "p": []})
        calls = [x[1] for x in origin_calls(ret)]
        if any(re.search(r"(total_cmp|std::cmp::Ord::cmp| as std::cmp::Ord>::cmp)$", c) for c in calls) and not any(re.search(r"partial_cmp$", c) for c in calls):
            return ("D-TOTAL-ORDER", "comparator is a total order (Ord::cmp / total_cmp)")
        pcs = [x for x in origin_calls(ret) if re.search(r"partial_cmp$", x[1])]
        if not pcs:
            return None
        cmp_fields = set()
        for a in pcs[0][2]:
            cmp_fields |= origin_fields(a)
        # the sorted vector
        vec = shared.backward_slice_locals(f, [op_local(t["args"][0])])
        dom = f.dominators(False)
        for b2, t2 in f.calls():
            if not call_matches(t2, r"Vec::<T(, A)?>::retain(_mut)?$") or not f.dominates(b2, bb, unwind=False):
                continue
            if not (shared.backward_slice_locals(f, [op_local(t2["args"][0])]) & vec):
                continue
            rc = f.origin(t2["args"][1])
            if rc[0] != "agg" or rc[1] not in facts.fns:
                continue
            rf = facts.fns[rc[1]]
            ro = rf.origin_place({"l": 0, "p": []})
            if ro[0] == "binop" and ro[1] in ("Gt", "Ge", "Lt", "Le", "Eq") and (origin_fields(ro[2]) | origin_fields(ro[3])) & cmp_fields \
                    and any(x[0] == "const" for x in (ro[2], ro[3])):
                return ("D-TOTAL-ORDER", "entries whose key fails `%s <const>` (NaN fails every comparison) are removed by retain() before the sort, so partial_cmp is total on the rest" % ro[1])
        return None

    REL = {"Lt": {"<"}, "Le": {"<", "="}, "Gt": {">"}, "Ge": {">", "="}, "Eq": {"="}, "Ne": {"<", ">"}}

    def negated_guard(self, f, bb):
        """`assert!(a >= b)` right after `if a < b { return .. }`: the failing side contradicts a
        dominating comparison of the same two values"""
        P = f.preds(unwind=False)
        preds = P[bb]
        if len(preds) != 1:
            return None
        s_bb = preds[0]
        bs = bool_switch(f, s_bb)
        if not bs:
            return None
        c = f.origin(bs[0])
        if c[0] != "binop" or c[1] not in self.REL:
            return None
        fail = self.REL[c[1]] if bs[1] == bb else ({"<", "=", ">"} - self.REL[c[1]])
        dom = f.dominators(False)
        for d in sorted(dom[s_bb] - {s_bb}, key=lambda b: -len(dom[b])):
            bs2 = bool_switch(f, d)
            if not bs2 or bs2[1] == bs2[2]:
                continue
            c2 = f.origin(bs2[0])
            if c2[0] != "binop" or c2[1] not in self.REL:
                continue
            if not (taint.origin_eq(c2[2], c[2]) and taint.origin_eq(c2[3], c[3])):
                continue
            if f.dominates(bs2[1], s_bb, unwind=False):
                known = self.REL[c2[1]]
            elif f.dominates(bs2[2], s_bb, unwind=False):
                known = {"<", "=", ">"} - self.REL[c2[1]]
            else:
                continue
            # the compared locals must not be re-assigned between the two tests
            locs = {x[1] for x in origin_walk(c[2]) if x[0] == "local"} | {x[1] for x in origin_walk(c[3]) if x[0] == "local"}
            between = f.reach([d], unwind=False) & {b for b in dom if d in dom[b]} & {b for b in f.live_blocks(False) if s_bb in f.reach([b], unwind=False)}
            redefined = any(dd[0] in ("assign", "call") and dd[1] in between and dd[1] != d for l in locs for dd in f.defs().get(l, []) if dd[0] != "arg")
            if not redefined and not (fail & known):
                return ("D-NEGATED-GUARD", "the failing side (%s) contradicts the dominating test `%s` of the same values" % (c[1], c2[1]))
        return None

    def _is_swapped_slot(self, f, t, fld):
        # `let mut w = None; swap(&mut self.slot, &mut w); w.unwrap()`
        l = op_local(t["args"][0])
        if l is None:
            return False
        src = l
        d = f.single_def(l)
        if d and d[0] == "assign" and d[3]["rv"] == "use" and op_local(d[3]["op"]) is not None:
            src = op_local(d[3]["op"])
        for bb, t2 in f.calls():
            if call_is(t2, "std::mem::swap", "std::mem::replace", "std::option::Option::<T>::take"):
                fields = set()
                locs = set()
                for a in t2["args"]:
                    o = f.origin(a)
                    fields |= origin_fields(o)
                    locs |= shared.backward_slice_locals(f, [op_local(a)] if op_local(a) is not None else [])
                if fld in fields and (src in locs or l in locs or t2["dest"]["l"] in (src, l)):
                    return True
        return False

    def _use_before_empty(self, f, bb, emptiers):
        """within f, the site must not come after a call that empties the slot"""
        for b2, t2 in f.calls():
            if call_name(t2) in emptiers and bb in f.reach([f.normal_target(b2)], unwind=False):
                return False
        return True

    def recv_is_only_cause(self, g, bb):
        """the panic of the unwrap/expect at (g, bb) is reached, on the abstract paths of g with the helpers of its file and the small std
        combinators spliced in, only after a channel receive returned an error (or not at all)"""
        import inline, absint
        memo = self.__dict__.setdefault("_recv_cause", {})
        if (g.id, bb) in memo:
            return memo[(g.id, bb)]
        X = inline.inlined(self.facts, g.id, stop=lambda d: self.facts.fns[d].rec.get("local") and self.facts.fns[d].file != g.file, extern_ok=Q.std_small)
        ps = absint.explore(X, 0, None, max_paths=4000, max_visits=2)
        res = None
        if not any(p.end[0] == "cut" for p in ps):
            hits = []
            for p in ps:
                if p.end[0] not in ("diverge", "terminate"):
                    continue
                blk = X.blocks[p.blocks[-1]]
                sites = set(blk.get("sites") or ()) | {(blk.get("src") or X.id, blk.get("obb", p.blocks[-1]))}
                if (g.id, bb) in sites:
                    hits.append(p)
            def recv_failed(p):
                for b_, c in p.conds:
                    if c and c[0] == "variant" and c[2] in ("Err", "Break") and c[3]:
                        h = absint.head_call(c[3])
                        if h is not None and (h[1] == RECV or re.search(r"mpsc::Receiver::<T>::recv$", h[1])):
                            return True
                        if any(x and x[0] == "call" and re.search(r"mpsc::Receiver::<T>::recv$", x[1]) for x in absint.walk_terms(c[3])):
                            return True
                return False
            if not hits:
                res = "inside the turn-taking module: the value unwrapped here is never an error on any abstract path"
            elif all(recv_failed(p) for p in hits):
                res = "inside the turn-taking module: the value unwrapped is an error only when a channel receive failed, and the predecessor's Drop always sends the token / passes the reader on (C01.3, C09.4)"
        memo[(g.id, bb)] = res
        return res

    def _from_notify(self, f, o):
        fld = self.ns["field"] if self.ns else None
        return fld is not None and any(x[0] == "field" and x[2] == fld for x in origin_walk(o))

    def sender_field(self, adt):
        a = self.facts.adts.get(adt)
        if a is None or a["kind"] != "Struct":
            return None
        xs = [x["name"] for x in a["variants"][0]["fields"] if x["ty"] == shared.SENDER_UNIT]
        return xs[0] if len(xs) == 1 else None

    def _notify_on_drop_dead(self, adt):
        """every construction of this wrapper (a struct holding a Sender<()> that its Drop sends on) is unreachable on the abstract paths of
        the Request's API started with the notice slot empty (its dead value in this configuration)"""
        memo = self.__dict__.setdefault("_nod_dead", {})
        if adt in memo:
            return memo[adt]
        facts = self.facts
        import request_rules as RR, absint
        RM = RR.rmodel(facts)
        ok = self.ns is not None
        cons = facts.constructions(adt) if ok else []
        def hosts_of(g, bb):
            out = []
            for m in RM.methods.values():
                if not m.rec.get("vis_pub"):
                    continue
                f = RM.fn(m)
                bs = [b for b in range(f.n) if f.src_of(b) == g.id and f.blocks[b].get("obb", b) == bb and not f.blocks[b].get("synthetic")]
                if bs:
                    out.append((m, f, set(bs)))
            return out
        sites = [(g, bb, 0) for g, bb, s in cons]
        while sites:
            g, bb, depth = sites.pop()
            hosts = hosts_of(g, bb)
            if not hosts:
                # built inside a constructor function that lives elsewhere: judge the places that call it
                callers = facts.callers_of(g.id)
                if not callers or depth > 3:
                    ok = False
                sites += [(g2, b2, depth + 1) for g2, b2, t2 in callers]
                continue
            for m, f, bs in hosts:
                st = symex.Sym(f)
                base = RM.self_base(m)
                st.write_key(RM.key(base, self.ns["path"]), self.ns["dead"])
                st.write_key(RM.key(base, RM.wslot), ("some", RR.WRITER))
                st.write_key(RM.key(base, RM.rslot), ("some", RR.READER))
                ps = absint.explore(f, 0, st, max_paths=6000)
                if any(p.end[0] == "cut" for p in ps) or any(bs & set(p.blocks) for p in ps):
                    ok = False
        memo[adt] = ok and bool(cons)
        return memo[adt]

    def ascii_args(self, f, o):
        descs = []
        for a in o[2]:
            x = a
            for _ in range(12):
                if x[0] in ("ref", "deref", "cast"):
                    x = x[1] if x[0] != "cast" else x[2]
                elif x[0] == "call" and re.search(r"(::index|::as_bytes|::into_bytes|::deref|::as_ref|::as_str|::borrow)$", x[1]) and x[2]:
                    x = x[2][0]
                else:
                    break
            if x[0] == "const" and isinstance(x[1], (bytes, str)):
                b = x[1] if isinstance(x[1], bytes) else x[1].encode("utf-8", "replace")
                if all(c < 0x80 for c in b):
                    descs.append("literal %r" % x[1])
                    continue
                return None
            if x[0] == "call" and re.search(ASCII_FORMATTERS, x[1]):
                descs.append("formatter output (%s)" % short(x[1]))
                continue
            if x[0] == "local" or x[0] == "call":
                # format!("{}", integer)
                txt = origin_str(x)
                if re.search(r"format|to_string", txt):
                    descs.append("formatter output")
                    continue
            # an application-supplied &str parameter of a public API (not client input)
            if x[0] == "downcast" or x[0] == "field" or x[0] == "arg":
                root = [y for y in origin_walk(x) if y[0] == "arg"]
                def str_param(y):
                    ty = f.local_ty(y[1])
                    if re.search(r"&('\w+ )?str\b", ty):
                        return True
                    # a struct of the crate that bundles the printing parameters: the field read is a &str / Option<&str>
                    a_ = self.facts.adts.get(re.sub(r"<.*$", "", ty.lstrip("&")))
                    if a_ is not None and a_["kind"] == "Struct" and not ty.startswith("std::"):
                        names = {z[2] for z in origin_walk(x) if z[0] == "field"}
                        tys = [fl["ty"] for fl in a_["variants"][0]["fields"] if fl["name"] in names]
                        return bool(tys) and all(re.search(r"&('\w+ )?str\b", t_) for t_ in tys)
                    return False
                def from_api(h, l, depth=0):
                    """parameter l of h is an application-supplied &str: h is API (or a printer), or a private helper every caller of which
                    hands it such a parameter of its own"""
                    if h.rec.get("vis_pub") or h.id in shared.printers(self.facts):
                        return True
                    if depth > 3:
                        return False
                    cs = list(self.facts.callers_of(h.id))
                    if not cs:
                        return False
                    for hc, b2, t2 in cs:
                        if l - 1 >= len(t2["args"]):
                            return False
                        y = hc.origin(t2["args"][l - 1])
                        for _ in range(8):
                            if y[0] in ("ref", "deref"):
                                y = y[1]
                            elif y[0] == "call" and re.search(r"(::as_ref|::as_deref|::as_str|::deref|::borrow)$", y[1]) and y[2]:
                                y = y[2][0]
                            else:
                                break
                        if y[0] != "arg" or not re.search(r"&('\w+ )?str\b", hc.local_ty(y[1])) or not from_api(hc, y[1], depth + 1):
                            return False
                    return True
                api = all(from_api(f, y[1]) for y in root) if root else False
                if root and api and all(str_param(y) for y in root):
                    descs.append("application-supplied &str (not client input)")
                    self.ctx.assume("the application passes an ASCII protocol name to Request::upgrade")
                    continue
            return None
        return "arguments are ASCII: " + ", ".join(descs)

    def found_index(self, f, e, base):
        """e is the position `str::find` / `rfind` / `Iterator::position` answered for a search in `base` (carried through Option / Result
        plumbing only) -> (the search call, byte length of an ASCII literal pattern or None)"""
        hit = None
        for z in origin_walk(e):
            if z[0] == "call":
                if re.search(r"<impl str>::r?find$|<impl \[T\]>::iter.*position$|Iterator>?::position$|memchr", z[1]) and z[2]:
                    if hit is not None:
                        return None
                    hit = z
                elif not re.search(r"::(ok_or|ok_or_else|branch|unwrap|expect|map_err|ok|from_residual)$", z[1]):
                    if hit is None:
                        return None
            elif z[0] in ("binop", "unop", "local", "unknown"):
                return None
        if hit is None:
            return None
        def strip(x):
            for _ in range(8):
                if x[0] in ("ref", "deref"):
                    x = x[1]
                else:
                    break
            return origin_str(x)
        if strip(hit[2][0]) != strip(base):
            return None
        lit = None
        if len(hit[2]) > 1 and hit[2][1][0] == "const":
            c = hit[2][1][1]
            if isinstance(c, str) and all(ord(ch) < 0x80 for ch in c):
                lit = len(c)
            elif isinstance(c, tuple) and len(c) == 2 and c[0] == "char" and isinstance(c[1], str) and len(c[1]) == 1 and ord(c[1]) < 0x80:
                lit = 1                                     # a `char` pattern below 0x80
        return hit, lit

    def guarded_index(self, f, bb, t):
        rn = t.get("res_name") or ""
        # the range operand
        if len(t["args"]) < 2:
            return None
        ro = f.origin(t["args"][1])
        if ro[0] != "agg":
            return None
        rname = str(ro[1])
        base = f.origin(t["args"][0])
        dom = f.dominators(False)
        if rname.endswith("RangeTo") and ro[2]:
            end = ro[2][0]
            # `s[..i]` where i is where a search in s itself found its pattern: a match starts inside s, on a character boundary
            if self.found_index(f, end, base):
                return ("D-FOUND-INDEX", "`s[..i]` with i the position a search in the same string answered")
            # `buf[..n]` where n is the count a `read(&mut buf)` into the very same buffer returned (io::Read contract: n <= buf.len())
            def buffer_root(x):
                y = x
                for _ in range(12):
                    if y[0] in ("ref", "deref"):
                        y = y[1]
                    elif y[0] == "cast":
                        y = y[2]
                    elif y[0] == "call" and re.search(r"(deref(_mut)?|as_mut_slice|as_mut|as_slice|borrow_mut)$", y[1]) and y[2]:
                        y = y[2][0]
                    else:
                        break
                return origin_str(y)
            ends = [end]
            for z in origin_walk(end):
                if z[0] == "local":
                    for d in f.defs().get(z[1], []):
                        if d[0] == "assign" and d[3]["rv"] == "use":
                            ends.append(f.origin(d[3]["op"]))
            for e in ends:
                is_ok_payload = any(z[0] == "downcast" and z[2] in ("Ok", "Continue") for z in origin_walk(e))
                for z in origin_walk(e):
                    if z[0] == "call" and z[1].endswith("Read::read") and is_ok_payload and len(z[2]) > 1 and buffer_root(z[2][1]) == buffer_root(base):
                        self.ctx.assume("inner readers obey the io::Read contract (returned count <= buffer length)")
                        return ("D-READ-CONTRACT", "`buf[..n]` with n the count returned by a read into that same buffer")
            # the end is a variable assigned on several branches (`let len = match limit { Some(n) => n.min(buf.len()), None => buf.len() }`):
            # every one of its values is the slice's own length, or the minimum of that length and something else
            def is_len_of_base(a):
                return (a[0] == "call" and re.search(r"::len$", a[1]) and a[2] and (taint.origin_eq(a[2][0], base) or origin_str(a[2][0]).lstrip("&*") == origin_str(base).lstrip("&*"))) or \
                       (a[0] == "unop" and a[1] == "PtrMetadata" and origin_str(a[2]).lstrip("&*") == origin_str(base).lstrip("&*"))
            def bounded_by_len(e, depth=0):
                if depth > 4:
                    return False
                if is_len_of_base(e):
                    return True
                if e[0] == "call" and re.search(r"::min$", e[1]):
                    return any(is_len_of_base(a) or bounded_by_len(a, depth + 1) for a in e[2])
                if e[0] == "local":
                    alts = []
                    for d in f.defs().get(e[1], []):
                        if d[0] == "assign":
                            alts.append(f.origin(d[3]["op"]) if d[3]["rv"] == "use" else (("unop", d[3]["op"], f.origin(d[3]["a"])) if d[3]["rv"] == "unop" else ("unknown",)))
                        elif d[0] == "call":
                            alts.append(("call", call_name(d[2]), [f.origin(a) for a in d[2]["args"]], d[1]))
                        else:
                            return False
                    return bool(alts) and all(bounded_by_len(a, depth + 1) for a in alts)
                return False
            if end[0] == "local" and bounded_by_len(end):
                return ("D-GUARDED-INDEX", "`..end` where end is, on every branch, the slice's length or the minimum of it and something else")
            # `buf[..buf.len().min(n)]`: the end is the minimum of the slice's own length and something else
            if end[0] == "call" and re.search(r"::min$", end[1]):
                for a in end[2]:
                    if (a[0] == "call" and re.search(r"::len$", a[1]) and a[2] and (taint.origin_eq(a[2][0], base) or origin_str(a[2][0]).lstrip("&*") == origin_str(base).lstrip("&*"))) or \
                            (a[0] == "unop" and a[1] == "PtrMetadata" and origin_str(a[2]).lstrip("&*") == origin_str(base).lstrip("&*")):
                        return ("D-GUARDED-INDEX", "`..min(len, _)` never exceeds the slice's length")
            # `buf[..min(x, K)]` where buf was created once as `vec![_; min(x, K)]` from the same variable x, which has only been decreased
            # since (and the vector is only ever sliced): the end never exceeds the length the vector was given
            r_ = self.sized_once(f, bb, base, end)
            if r_:
                return r_
            # dominated by the false edge of `len(buf) < end`
            for b in sorted(dom[bb]):
                bs = bool_switch(f, b)
                if not bs:
                    continue
                c = f.origin(bs[0])
                if c[0] == "binop" and c[1] in ("Lt", "Ge", "Le", "Gt"):
                    l, r = c[2], c[3]
                    is_len = lambda x: (x[0] == "call" and re.search(r"::len$", x[1])) or x[0] in ("unop",) or "PtrMetadata" in str(x)
                    if c[1] == "Lt" and is_len(l) and taint.origin_eq(r, end) and f.dominates(bs[2], bb, unwind=False) and bs[1] != bs[2]:
                        return ("D-GUARDED-INDEX", "`..end` under `!(len < end)`")
                    if c[1] == "Ge" and is_len(l) and taint.origin_eq(r, end) and f.dominates(bs[1], bb, unwind=False) and bs[1] != bs[2]:
                        return ("D-GUARDED-INDEX", "`..end` under `len >= end`")
            return None
        if rname.endswith("RangeFrom") and ro[2]:
            start = ro[2][0]
            # `s[i + k..]` where i is where a search in s itself found an ASCII pattern of k bytes: the match ends inside s, on a boundary
            if start[0] == "binop" and start[1] in ("Add", "AddWithOverflow", "AddUnchecked") or (start[0] == "field" and start[1][0] == "binop" and start[1][1] == "AddWithOverflow"):
                b_ = start if start[0] == "binop" else start[1]
                for x_, k_ in ((b_[2], b_[3]), (b_[3], b_[2])):
                    if k_[0] == "const" and isinstance(k_[1], int) and not isinstance(k_[1], bool):
                        fi = self.found_index(f, x_, base)
                        if fi and fi[1] is not None and k_[1] == fi[1]:
                            return ("D-FOUND-INDEX", "`s[i + %d..]` just behind the %d-byte ASCII pattern a search in the same string found at i" % (k_[1], fi[1]))
            if start[0] == "const" and isinstance(start[1], int):
                k = start[1]
                # str slice after starts_with(literal) of at least k ASCII bytes on the same receiver
                for b2, t2 in f.calls():
                    if call_matches(t2, r"<impl str>::starts_with") and t2.get("target") is not None:
                        lits = [c for c in arg_consts(f, t2) if isinstance(c, str)]
                        bs = bool_switch(f, t2["target"])
                        if not bs:
                            # the test's answer handed through a helper or closure that returns it (`.filter(|p| p.starts_with(..))`)
                            for d_ in range(f.n):
                                bs_ = bool_switch(f, d_)
                                if bs_:
                                    c_ = f.origin(bs_[0])
                                    if c_[0] == "call" and len(c_) > 3 and c_[3] == b2:
                                        bs = bs_
                                        break
                        if lits and bs and len(lits[0].encode()) >= k and all(ord(ch) < 0x80 for ch in lits[0]) \
                                and f.dominates(bs[1], bb, unwind=False) and bs[1] != bs[2]:
                            recv = f.origin(t2["args"][0])
                            if taint.origin_eq(recv, base) or taint.origin_eq(("ref", recv), base) or taint.origin_eq(recv, ("ref", base)) or origin_str(recv) == origin_str(base):
                                return ("D-GUARDED-INDEX", "`[%d..]` after starts_with(%r) on the same string" % (k, lits[0]))
                return None
            # `v[start..]` where start is an earlier `v.len()` and v has not been shortened since (only grown: resize-to-larger, push, extend)
            lens = []
            for z in origin_walk(start):
                if z[0] == "call" and re.search(r"Vec::<T(, A)?>::len$|<impl \[T\]>::len$", z[1]):
                    lens.append(z)
                if z[0] == "local":
                    for d in f.defs().get(z[1], []):
                        if d[0] == "call" and re.search(r"Vec::<T(, A)?>::len$", call_name(f.term(d[1]))):
                            tt = f.term(d[1])
                            lens.append(("call", call_name(tt), [f.origin(a) for a in tt["args"]], d[1]))
            def root(x):
                y = x
                for _ in range(12):
                    if y[0] in ("ref", "deref"):
                        y = y[1]
                    elif y[0] == "call" and re.search(r"(deref(_mut)?|as_mut_slice|as_mut|as_slice)$", y[1]) and y[2]:
                        y = y[2][0]
                    else:
                        break
                return origin_str(y)
            for z in lens:
                if z[2] and root(z[2][0]) == root(base) and f.dominates(z[3], bb, unwind=False):
                    between = f.reach([f.normal_target(z[3])], blocked={bb, z[3]}, unwind=False)
                    shrink = [b2 for b2, t2 in f.calls() if b2 in between and bb in f.reach([b2], unwind=False) and t2["args"] and root(f.origin(t2["args"][0])) == root(base)
                              and re.search(r"Vec::<T(, A)?>::(truncate|clear|pop|remove|swap_remove|drain|split_off|retain|dedup\w*|set_len|shrink_to\w*)$", call_name(t2))]
                    grow_ok = True
                    for b2, t2 in f.calls():
                        if b2 in between and bb in f.reach([b2], unwind=False) and re.search(r"Vec::<T(, A)?>::resize$", call_name(t2)) and t2["args"] and root(f.origin(t2["args"][0])) == root(base):
                            no = f.origin(t2["args"][1])
                            # resize(len + K): grows
                            if not (any(w[0] == "binop" and w[1] in ("Add", "AddWithOverflow", "AddUnchecked") for w in origin_walk(no))):
                                grow_ok = False
                    if not shrink and grow_ok:
                        return ("D-GUARDED-INDEX", "`v[start..]` with start an earlier length of v, which has only grown since")
            # accumulator of read counts
            l = op_local(t["args"][1])
            r = self.accumulator(f, start)
            if r:
                self.ctx.assume("inner readers obey the io::Read contract (returned count <= buffer length)")
                return ("D-READ-CONTRACT", r)
        return None

    def sized_once(self, f, bb, base, end):
        fe = [z for z in origin_walk(base) if z[0] == "call" and re.search(r"from_elem$", z[1]) and len(z[2]) > 1 and len(z) > 3]
        if len(fe) != 1:
            return None
        n0, fb = fe[0][2][1], fe[0][3]
        def split(e):
            if e[0] == "call" and re.search(r"::min$", e[1]) and len(e[2]) == 2:
                ks = [a for a in e[2] if a[0] == "const" and isinstance(a[1], int) and not isinstance(a[1], bool)]
                xs = [a for a in e[2] if not (a[0] == "const")]
                if len(ks) == 1 and len(xs) == 1:
                    return xs[0], ks[0][1]
            return e, None
        xe, ke = split(end)
        x0, k0 = split(n0)
        if xe[0] != "local" or x0 != xe or not (k0 is None or (ke is not None and ke <= k0)):
            return None
        l = xe[1]
        dec_blocks, other_blocks = [], []
        for d in f.defs().get(l, []):
            if d[0] == "arg":
                continue
            if d[0] != "assign":
                return None
            rv = d[3]
            o = f.origin(rv["op"]) if rv["rv"] == "use" else (("binop", rv["op"], f.origin(rv["a"]), f.origin(rv["b"])) if rv["rv"] == "binop" else ("unknown",))
            # x = x - _  (checked or not: an overflowing subtraction is a panic site of its own) / x = min(x, _) / x = x.saturating_sub(_)
            while o[0] == "field" and o[1][0] == "binop":
                o = o[1]
            dec = (o[0] == "binop" and o[1] in ("Sub", "SubWithOverflow", "SubUnchecked") and o[2] == ("local", l)) or \
                  (o[0] == "call" and re.search(r"::(saturating_sub|min)$", o[1]) and o[2] and o[2][0] == ("local", l))
            (dec_blocks if dec else other_blocks).append(d[1])
        if not other_blocks or not all(f.dominates(b, fb, unwind=False) for b in other_blocks):
            return None
        if set(other_blocks) & (f.reach([fb], unwind=False) - {fb}):
            return None                       # the variable may be given a new (larger) value after the vector was made
        # the vector itself: only sliced / dereferenced
        vl = None
        for b2, t2 in f.calls():
            if b2 == fb and not t2["dest"]["p"]:
                vl = t2["dest"]["l"]
        if vl is None:
            return None
        for b2, i2, st2 in f.assigns():
            rv = st2["rhs"]
            if rv["rv"] == "ref" and rv["pl"]["l"] == vl and rv.get("mut"):
                us = f.uses().get(st2["lhs"]["l"], []) if not st2["lhs"]["p"] else None
                if not us or not all(u[0] == "term" and u[2]["t"] == "call" and call_matches(u[2], r"(::index_mut|::deref_mut|::as_mut_slice|::as_mut|::index|::deref|::len)$") for u in us):
                    return None
            if rv["rv"] == "use" and op_place(rv["op"]) and op_place(rv["op"])["l"] == vl:
                return None
        return ("D-GUARDED-INDEX", "`v[..min(x, K)]` where v was created as `vec![_; min(x, K)]` from the same variable, which is only ever decreased afterwards")

    def accumulator(self, f, o):
        """origin `o` is a local initialised with 0 and only ever increased by Read::read counts,
        with the loop guarded by a comparison of that local"""
        locs = [x[1] for x in origin_walk(o) if x[0] == "local"]
        for l in locs:
            defs = [d for d in f.defs().get(l, []) if d[0] == "assign"]
            if not defs:
                continue
            ok = True
            for d in defs:
                rv = d[3]
                if rv["rv"] == "use" and op_const(rv["op"]) == 0:
                    continue
                src = f.origin(rv["op"]) if rv["rv"] == "use" else None
                if rv["rv"] == "use" and src is not None:
                    # `_x = move (_t.0)` where _t = AddWithOverflow(l, count)
                    if any(x[0] == "binop" and x[1] in ("Add", "AddWithOverflow") for x in origin_walk(src)) and \
                            any(y[0] == "downcast" and y[2] in ("Ok", "Continue") for y in origin_walk(src)):
                        continue
                ok = False
            if ok:
                return "offset accumulates only counts returned by Read::read into the same buffer"
        return None

    def digit_arith(self, f, bb, t):
        """`b - b'0'` under `b.is_ascii_digit()`"""
        o = f.origin(t["cond"])
        ops = [x for x in origin_walk(o) if x[0] == "binop" and x[1] == "SubWithOverflow"]
        if not ops or ops[0][3][0] != "const" or not isinstance(ops[0][3][1], int) or ops[0][3][1] > 48:
            return None
        dom = f.dominators(False)
        for d in dom[bb]:
            bs = bool_switch(f, d)
            if bs and bs[1] != bs[2] and f.dominates(bs[1], bb, unwind=False):
                c = f.origin(bs[0])
                if c[0] == "call" and re.search(r"is_ascii_digit$", c[1]) and origin_str(c[2][0]).lstrip("&*") == origin_str(ops[0][2]).lstrip("&*"):
                    return ("D-GUARDED-ARITH", "`b - %d` under `b.is_ascii_digit()`" % ops[0][3][1])
        return None

    def read_contract_arith(self, f, bb, t):
        o = f.origin(t["cond"])
        # cond is `move _t.1` of a *WithOverflow binop
        ops = [x for x in origin_walk(o) if x[0] == "binop" and x[1] in ("AddWithOverflow", "SubWithOverflow", "MulWithOverflow")]
        if not ops:
            return None
        x = ops[0]
        def is_count(y):
            return any(z[0] == "downcast" and z[2] in ("Ok", "Continue") for z in origin_walk(y)) and \
                any(z[0] == "call" and z[1].endswith("Read::read") for z in origin_walk(y))
        def from_local_reads(y):
            # through locals: the count local defined from the Ok payload of a Read::read
            for z in origin_walk(y):
                if z[0] == "local":
                    for d in f.defs().get(z[1], []):
                        if d[0] == "assign" and d[3]["rv"] == "use":
                            oo = f.origin(d[3]["op"])
                            if is_count(oo):
                                return True
            return is_count(y)
        if x[1] == "SubWithOverflow" and from_local_reads(x[3]):
            # `L - n` where n was returned by a read into a buffer created as `vec![0; L]`: n <= L by the io::Read contract
            def counts(y):
                outc = []
                for z in origin_walk(y):
                    if z[0] == "call" and z[1].endswith("Read::read"):
                        outc.append(z)
                    if z[0] == "local":
                        for d in f.defs().get(z[1], []):
                            if d[0] == "assign" and d[3]["rv"] == "use":
                                outc += [w for w in origin_walk(f.origin(d[3]["op"])) if w[0] == "call" and w[1].endswith("Read::read")]
                return outc
            for rc in counts(x[3]):
                if len(rc[2]) > 1:
                    for w in origin_walk(rc[2][1]):
                        if w[0] == "call" and re.search(r"vec::from_elem$", w[1]) and len(w[2]) > 1 and (taint.origin_eq(w[2][1], x[2]) or origin_str(w[2][1]) == origin_str(x[2])):
                            self.ctx.assume("inner readers obey the io::Read contract (returned count <= buffer length)")
                            return ("D-READ-CONTRACT", "`L - n` with n the count of a read into a buffer of exactly L bytes")
        if x[1] == "AddWithOverflow":
            # `len + K`: a length of something held in memory is at most isize::MAX, a small constant on top cannot overflow usize
            for a, b in ((x[2], x[3]), (x[3], x[2])):
                k = b[1] if b[0] == "const" and isinstance(b[1], int) and not isinstance(b[1], bool) else None
                if k is not None and 0 <= k <= (1 << 32):
                    is_len = (a[0] == "call" and re.search(r"::len$", a[1])) or (a[0] == "unop" and a[1] == "PtrMetadata")
                    if not is_len:
                        for z in origin_walk(a):
                            if z[0] == "local":
                                ds = [d for d in f.defs().get(z[1], []) if d[0] in ("assign", "call")]
                                if ds and all((d[0] == "call" and re.search(r"::len$", call_name(f.term(d[1])))) for d in ds):
                                    is_len = True
                    if is_len:
                        return ("D-LEN-PLUS-CONST", "a length of data held in memory plus a constant cannot overflow usize")
                    if any(z[0] == "call" and re.search(r"<impl str>::r?find$|Iterator>?::position$", z[1]) for z in origin_walk(a)) and \
                            not any(z[0] in ("binop", "local", "unknown") for z in origin_walk(a)):
                        return ("D-LEN-PLUS-CONST", "a position inside data held in memory plus a constant cannot overflow usize")
        if from_local_reads(x[2]) or from_local_reads(x[3]):
            if x[1] == "SubWithOverflow":
                # `remaining -= n`: n <= buffer length is only enough if the buffer is no longer than `remaining`
                minuend_locals = {y[1] for y in origin_walk(x[2]) if y[0] == "local"}
                reads = [b2 for b2, t2 in f.calls() if t2.get("callee") == "std::io::Read::read"]
                if minuend_locals and reads and not any("size" in origin_fields(x[2]) for _ in [0]):
                    for rb in reads:
                        okb, why = shared.read_buffer_bounded_by(f, rb, minuend_locals)
                        if not okb:
                            return None
            self.ctx.assume("inner readers obey the io::Read contract (returned count <= buffer length)")
            return ("D-READ-CONTRACT", "%s of a count returned by Read::read, which is bounded by the slice handed to it" % x[1])
        return None

    def guarded_place_sub(self, f, bb, t):
        """`a - b` of two memory places (fields behind a parameter) on the side of a dominating comparison of the same two places that
        implies a >= b, with nothing able to write either place between the loads the comparison was made from and the subtraction"""
        o = f.origin(t["cond"])
        ops = [x for x in origin_walk(o) if x[0] == "binop" and x[1] == "SubWithOverflow"]
        if not ops:
            return None
        A, B = ops[0][2], ops[0][3]
        def root_arg(x):
            while x and x[0] in ("field", "deref", "downcast"):
                x = x[1]
            return x[1] if x and x[0] == "arg" else None
        def is_place(x):
            return x[0] == "field" and root_arg(x) is not None and any(y[0] == "deref" for y in origin_walk(x))
        if not (is_place(A) and is_place(B)) or A == B:
            return None
        roots = {root_arg(A), root_arg(B)}
        def prefix(x, y):
            # is place x a prefix of place y (or equal)?
            while True:
                if x == y:
                    return True
                if y and y[0] in ("field", "deref", "downcast", "index"):
                    y = y[1]
                else:
                    return False
        def overlaps(x):
            return any(prefix(x, P) or prefix(P, x) for P in (A, B))
        dom = f.dominators(False)
        for d in sorted(dom[bb], reverse=True):
            if d == bb:
                continue
            bs = bool_switch(f, d)
            if not bs or bs[1] == bs[2]:
                continue
            c = f.origin(bs[0])
            if c[0] != "binop" or c[1] not in ("Ge", "Gt", "Le", "Lt"):
                continue
            if (c[2], c[3]) == (A, B):
                edge = c[1] in ("Ge", "Gt")          # `a >= b` / `a > b` taken; `a < b` / `a <= b` refused
            elif (c[2], c[3]) == (B, A):
                edge = c[1] in ("Le", "Lt")          # `b <= a` / `b < a` taken; `b > a` / `b >= a` refused
            else:
                continue
            tgt = bs[1] if edge else bs[2]
            if not f.dominates(tgt, bb, unwind=False):
                continue
            # the earliest block the comparison's operands were loaded in
            chain, work_, seen_ = [d], [op_place(bs[0])["l"]] if op_place(bs[0]) else [], set()
            while work_:
                l = work_.pop()
                if l in seen_:
                    continue
                seen_.add(l)
                sd = f.single_def(l)
                if sd is None or sd[0] != "assign":
                    continue
                chain.append(sd[1])
                rv = sd[3]
                for k_ in ("op", "a", "b"):
                    if isinstance(rv.get(k_), dict) and op_place(rv[k_]) and not op_place(rv[k_])["p"]:
                        work_.append(op_place(rv[k_])["l"])
            E = [x for x in chain if all(f.dominates(x, y, unwind=False) for y in chain)]
            if not E:
                continue
            E = E[0]
            back = set()
            pr = f.preds(False)
            wk = [bb]
            while wk:                                 # blocks that reach the subtraction without passing the loads again
                x = wk.pop()
                for y in pr[x]:
                    if y not in back and y != E:
                        back.add(y); wk.append(y)
            region_ = ({E} | (f.reach([E], unwind=False) & back)) | {bb}
            killed = None
            for x in sorted(region_):
                for s_ in f.stmts(x):
                    if s_["s"] == "assign" and "*" in s_["lhs"]["p"]:
                        w = f.origin_place(s_["lhs"])
                        if root_arg(w) is None or overlaps(w):
                            killed = "write at %s" % f.loc(x)
                tt = f.term(x)
                if tt["t"] == "call" and x != bb:
                    for a_ in tt["args"]:
                        oa = f.origin(a_)
                        if any(y[0] == "arg" and y[1] in roots for y in origin_walk(oa)) or any(y[0] in ("local", "unknown") for y in origin_walk(oa)):
                            # something derived from the same parameter (or of unknown provenance) is handed to code that is not analysed here
                            killed = "call %s at %s" % (short(call_name(tt)), f.loc(x))
            if killed is None:
                return ("D-GUARDED-ARITH", "`a - b` of two fields on the side of a dominating comparison of the same fields that implies a >= b, neither being written in between")
        return None

    def guarded_arith(self, f, bb, t):
        name = t.get("res_name") or call_name(t)
        if re.search(r"Duration as std::ops::Sub>::sub$", name):
            a, b = f.origin(t["args"][0]), f.origin(t["args"][1])
            dom = f.dominators(False)
            for d in sorted(dom[bb]):
                bs = bool_switch(f, d)
                if not bs:
                    continue
                c = f.origin(bs[0])
                if c[0] == "call" and re.search(r"PartialOrd.*::(gt|ge)$|::(gt|ge)$", c[1]) and len(c[2]) == 2:
                    if origin_str(c[2][0]).lstrip("&") == origin_str(a) and origin_str(c[2][1]).lstrip("&") == origin_str(b) and f.dominates(bs[1], bb, unwind=False) and bs[1] != bs[2]:
                        return ("D-GUARDED-ARITH", "`a - b` under `a > b`")
                    # ... or on the refused side of `b > a` / `b >= a`?  no: that gives a <= b.  (only the taken side of a > b / a >= b)
                if c[0] == "call" and re.search(r"PartialOrd.*::(lt|le)$|::(lt|le)$", c[1]) and len(c[2]) == 2:
                    # the same test written from the other side: `b < a` / `b <= a` taken
                    if origin_str(c[2][1]).lstrip("&") == origin_str(a) and origin_str(c[2][0]).lstrip("&") == origin_str(b) and f.dominates(bs[1], bb, unwind=False) and bs[1] != bs[2]:
                        return ("D-GUARDED-ARITH", "`a - b` under `b < a`")
                    # `a < b` / `a <= b` refused (`if a < b { .. } else { a - b }`): only `<` refused gives a >= b
                    if re.search(r"::lt$", c[1]) and origin_str(c[2][0]).lstrip("&") == origin_str(a) and origin_str(c[2][1]).lstrip("&") == origin_str(b) and f.dominates(bs[2], bb, unwind=False) and bs[1] != bs[2]:
                        return ("D-GUARDED-ARITH", "`a - b` where `a < b` was refused")
        if re.search(r"Duration::from_millis$|Duration::from_secs$", name):
            return ("D-TOTAL", "cannot panic")
        return None

    def poison(self, f, bb, t, o):
        """lock().unwrap(): poisoned only if a thread panicked while holding the guard. Discharged
        iff no undischarged, non-poison panic site is reachable from calls made while a guard of
        that mutex type is alive."""
        ok, why = self.ctx._poison_ok.get(f.id, (None, None))
        if ok is None:
            return None
        return ("D-POISON", why) if ok else None


def recursion_cycles(facts, members):
    """call cycles among the given local functions -> list of cycles (each a sorted list of function ids)"""
    G = {}
    for k in members:
        g = facts.fns.get(k)
        if g is None:
            continue
        out = {call_name(t) for bb, t in g.calls() if call_name(t) in members}
        out |= {c for c in members if c.startswith(k + "::{closure")}
        G[k] = out
    idx, low, stack, on, res, n = {}, {}, [], set(), [], [0]
    for root in sorted(G):
        if root in idx:
            continue
        work = [(root, iter(sorted(G[root])))]
        idx[root] = low[root] = n[0]; n[0] += 1; stack.append(root); on.add(root)
        while work:
            v, it = work[-1]
            adv = False
            for w in it:
                if w not in G:
                    continue
                if w not in idx:
                    idx[w] = low[w] = n[0]; n[0] += 1; stack.append(w); on.add(w)
                    work.append((w, iter(sorted(G[w]))))
                    adv = True
                    break
                elif w in on:
                    low[v] = min(low[v], idx[w])
            if adv:
                continue
            work.pop()
            if work:
                low[work[-1][0]] = min(low[work[-1][0]], low[v])
            if low[v] == idx[v]:
                comp = []
                while True:
                    w = stack.pop(); on.discard(w); comp.append(w)
                    if w == v:
                        break
                if len(comp) > 1 or v in G[v]:
                    res.append(sorted(comp))
    return res


def run(ctx):
    facts = ctx.facts
    roles.bind(facts)
    reg = region.client_region(facts)
    ctx.floor("client-reachable local functions", len(reg), 60)
    fns = {k: facts.fns[k] for k in reg}

    # ---- C14.R no recursion in client-reachable code: the depth of the stack must not depend on what (or how much) a client sends;
    # a function that calls itself once per rejected request / header / chunk overflows its thread's stack, which aborts the process
    cycles = recursion_cycles(facts, set(fns))
    for c in cycles:
        g0 = facts.fns[c[0]]
        ctx.ob("C14.R", "recursion|%s" % "+".join(c), "no function reachable from client input calls itself (directly or through others)", False, "%s:%d" % (g0.file, g0.line), " -> ".join(short(x) for x in c + [c[0]]))
    ctx.ob("C14.R", "no-recursion", "the client-reachable functions of the crate form no call cycle (resolved calls, closures counted with the function they are written in)", not cycles, "crate", nontrivial=True)
    ctx.counts["C14.R functions in the call graph"] = len(fns)

    # ---- C14.A allocation bound
    T = taint.Taint(facts, fns)
    ctx.floor("C14.A taint sources (integer parses of client text)", len(T.sources), 1)
    nsinks = 0
    for fid in sorted(fns):
        g = fns[fid]
        ctx.touch(g)
        for bb, t, idx in taint.sink_sites(g):
            nsinks += 1
            ctx.call_sites += 1
            tainted = T.op_tainted(g, t["args"][idx])
            bound = taint.bounded_by_constant(g, bb, t["args"][idx]) if tainted else None
            if tainted and bound is None:
                # the bound may sit in the function this helper serves
                # (in every one of them, when it serves several)
                cx = shared.lift_sites(facts, g, bb)
                if cx and all(R is not g for R, b in cx):
                    bs_ = [taint.bounded_by_constant(R, b, R.term(b)["args"][idx]) for R, b in cx]
                    bound = bs_[0] if all(x is not None for x in bs_) else None
            if tainted and bound is None:
                bound = framing_bound(facts, g, bb)
            ok = (not tainted) or bound is not None
            ctx.ob("C14.A", "%s|alloc|%s" % (fid, short(call_name(t))),
                   "no allocation is sized by a client-declared length unless that length is bounded by a constant",
                   ok, g.loc(bb), ("size derives from a client-declared length and %s" % (bound or "nothing bounds it: a header like `Content-Length: 99999999999999` makes the process try to allocate that much (abort)")) if tainted else "size is not client-derived",
                   nontrivial=tainted)
    ctx.floor("C14.A allocation sinks in the region", nsinks, 2)
    ntainted = sum(1 for fid in fns for bb, t, idx in taint.sink_sites(fns[fid]) if T.op_tainted(fns[fid], t["args"][idx]))
    # the declared Content-Length is known to reach an allocation site (the pre-read buffer; on the pinned tree also the discard buffer,
    # which a refactoring may legitimately size by a constant instead): if the taint no longer gets to any, the flow analysis has gone
    # blind (e.g. after a refactoring of the parser) -- fail closed
    ctx.floor("C14.A allocation sinks reached by a client-declared length", ntainted, 1)
    ctx.counts["C14.A tainted fields"] = len(T.fields)

    res = panic_census(ctx, "C14.B", reg, fns)
    return res


def framing_bound(facts, g, bb):
    """an allocation on new_request's paths whose size is the converted Content-Length: bounded if every abstract path of the framing model that
    performs it has assumed `length <= K` / `length < K` for a constant K"""
    import framing_rules as FRM, absint
    try:
        FM = FRM.fmodel(facts)
    except CheckerError:
        return None
    if g.id not in [d for dep, d in FM.nr.inlined]:
        return None
    n = 0
    worst = 0
    for r in FM.rows:
        p = r["path"]
        evs = [e for e in p.calls() if FM.nr.src_of(e[0]) == g.id and FM.nr.blocks[e[0]].get("obb") == bb]
        if not evs:
            continue
        n += 1
        ks = []
        for a, v in r["atoms"]:
            if a[0] == "cl_cmp":
                op, K, left = a[1], a[2], a[3]
                upper = (not left and ((op in ("Le", "Lt") and v) or (op in ("Gt", "Ge") and not v))) or (left and ((op in ("Ge", "Gt") and v) or (op in ("Lt", "Le") and not v)))
                if upper:
                    ks.append(K)
        if not ks or min(ks) > taint.MAX_BOUND:
            return None
        # ... and the value compared is the very value the allocation is sized by (a later header's length is a different value than the
        # first one's: call results carry the loop iteration they were obtained in), not merely *a* converted Content-Length
        idxs = [i for b_, t_, i in taint.sink_sites(g) if b_ == bb]
        size = evs[0][3][idxs[0]] if idxs and len(evs[0][3]) > idxs[0] else None
        same = False
        for cb, c in p.conds:
            if not c or c[0] != "scalar" or not isinstance(c[2], bool):
                continue
            v, val = c[1], c[2]
            while v[0] == "unop" and v[1] == "Not":
                v, val = v[2], not val
            if v[0] != "binop" or v[1] not in ("Lt", "Le", "Gt", "Ge"):
                continue
            ka, kb = absint.const_of(v[2]), absint.const_of(v[3])
            if isinstance(kb, int) and not isinstance(kb, bool) and v[2] == size and kb <= taint.MAX_BOUND + 1 and ((v[1] in ("Lt", "Le")) == val):
                same = True
            if isinstance(ka, int) and not isinstance(ka, bool) and v[3] == size and ka <= taint.MAX_BOUND + 1 and ((v[1] in ("Gt", "Ge")) == val):
                same = True
        if size is not None and not same:
            return None
        worst = max(worst, min(ks))
    if n == 0:
        return None
    return "bounded by the constant %d on every path of the framing decision that reaches it" % worst


def panic_census(ctx, RULE, reg=None, fns=None):
    """the panic-site census over the client-reachable region (shared with C15.4)"""
    facts = ctx.facts
    if reg is None:
        reg = region.client_region(facts)
        fns = {k: facts.fns[k] for k in reg}
    D = Discharger(ctx)
    sites = []
    raw_of = {}
    for fid in sorted(fns):
        g = fns[fid]
        for bb, kind, desc, t in region.panic_sites(facts, g):
            sites.append((g, bb, kind, desc, t))
    visited, covered = shared.abstractly_visited(facts)
    ctx.floor("%s panic-capable sites in the region" % RULE, len(sites), 30)
    results = {}
    deferred = []
    for g, bb, kind, desc, t in sites:
        r = D.discharge(g, bb, kind, t)
        if r and r[0] == "DEFER-POISON":
            deferred.append((g, bb, kind, desc, t))
            continue
        if r is None:
            # a site inside a private helper is judged inside the function the helper serves (its guards may live there)
            # (in every one of them, when it serves several)
            cx = shared.lift_sites(facts, g, bb)
            if "{closure" in g.id and all(R is g for R, b in cx):
                # (a closure handed to an Option / Result combinator is found in its parent once the combinator's body is spliced in)
                cx = shared.lift_sites(facts, g, bb, std=True)
            if cx and all(R is not g for R, b in cx):
                # (where the call at the site was itself spliced in, the call it was)
                rs_ = [D.discharge(R, b, kind, R.blocks[b].get("inl_call") or R.term(b)) for R, b in cx]
                if all(x is not None and x[0] != "DEFER-POISON" for x in rs_):
                    r = rs_[0]
        if r is None:
            rid, rbb = g.id, bb
            if rid in covered and (rid, rbb) not in visited:
                r = ("D-ABS-UNREACHABLE", "not reached on any abstract path of the public entry points of this module started from the states its typestate / hand-off rules establish (C06, C01, C09; the response printer: from any state)")
        results[(g.id, bb)] = r
    # poison phase: a lock site is fine iff nothing undischarged can panic under a guard of the same function set
    undis_fns = {gid for (gid, bb), r in results.items() if r is None}
    ctx._poison_ok = {}
    for g, bb, kind, desc, t in deferred:
        if g.id in ctx._poison_ok:
            continue
        # functions reachable (locally) from g, plus g itself
        seen = set()
        work = [g.id]
        while work:
            x = work.pop()
            if x in seen or x not in facts.local_fns:
                continue
            seen.add(x)
            work.extend(region.local_callees(facts, facts.fns[x]))
        bad = sorted(seen & undis_fns)
        # user callbacks under the lock
        inst = [i for i in facts.instances_of(g.id) if not i["generic"]]
        cb = set()
        for i in inst:
            for b2, t2 in g.calls():
                cb |= facts.call_effects(i, b2) & {"USER-CALLBACK", "DYN-UNKNOWN", "FNPTR"}
        if bad or cb:
            ctx._poison_ok[g.id] = (False, "panic-capable code under the lock: %s %s" % (bad, sorted(cb)))
        else:
            ctx._poison_ok[g.id] = (True, "no undischarged panic site and no user callback is reachable while the guard is alive, so the mutex cannot be poisoned")
    for g, bb, kind, desc, t in deferred:
        results[(g.id, bb)] = D.discharge(g, bb, kind, t, poison_phase=True)
    per_fn_ord = {}
    ndis = collections.Counter()
    for g, bb, kind, desc, t in sites:
        r = results[(g.id, bb)]
        k = (g.id, kind)
        per_fn_ord[k] = per_fn_ord.get(k, 0) + 1
        key = "%s|%s|%s" % (g.id, kind, anchor_of(g, bb, t, per_fn_ord[k]))
        ok = r is not None
        if ok:
            ndis[r[0]] += 1
        ctx.ob(RULE, key, "a construct that can panic in client-reachable code is provably not triggerable",
               ok, g.loc(bb), ("%s: %s" % r) if ok else "no discharge rule applies (%s); call chain: %s" % (desc, " -> ".join(short(x) for x in region.chain(reg, g.id))))
    ctx.counts["%s discharged by rule" % RULE] = dict(ndis)
    return {"panic_sites": len(sites), "discharge_rules_used": dict(ndis)}


def anchor_of(g, bb, t, ordinal):
    """a stable, line-free anchor for a site: what it operates on"""
    if t["t"] == "call" and t["args"]:
        o = g.origin(t["args"][0])
        flds = sorted(origin_fields(o))
        calls = [short(x[1]).split("::")[-1] for x in origin_calls(o)][:2]
        return "%s%s#%d" % ("/".join(flds) or "-", ("<-" + ",".join(calls)) if calls else "", ordinal)
    if t["t"] == "assert":
        return "%s#%d" % (re.split(r"[ ({]", t["kind"])[0], ordinal)
    return "#%d" % ordinal


def run_thorough(ctx):
    """thorough tier: the panic census is extended to the generic MIR of chunked_transfer's Decoder (the
    dependency code that parses client bytes), and the taint analysis to its chunk-size parser"""
    facts = ctx.facts
    D = Discharger(ctx)
    fns = {k: g for k, g in facts.fns.items() if not g.rec.get("local") and re.search(r"chunked_transfer::(decoder::)?Decoder", k)}
    ctx.floor("C14.B(thorough) Decoder bodies", len(fns), 4)
    n = 0
    ords = {}
    for k in sorted(fns):
        g = fns[k]
        ctx.touch(g)
        for bb, kind, desc, t in region.panic_sites(facts, g):
            n += 1
            r = D.discharge(g, bb, kind, t)
            kk = (k, kind)
            ords[kk] = ords.get(kk, 0) + 1
            ctx.ob("C14.B", "[dep]%s|%s|%s" % (k, kind, anchor_of(g, bb, t, ords[kk])), "a construct that can panic in the chunk decoder (dependency code parsing client bytes) is provably not triggerable",
                   r is not None and r[0] != "DEFER-POISON", g.loc(bb), ("%s: %s" % r) if r else "no discharge rule applies (%s)" % desc)
    T = taint.Taint(facts, fns)
    ns = 0
    for k in sorted(fns):
        g = fns[k]
        for bb, t, idx in taint.sink_sites(g):
            ns += 1
            tainted = T.op_tainted(g, t["args"][idx])
            bound = taint.bounded_by_constant(g, bb, t["args"][idx]) if tainted else None
            ctx.ob("C14.A", "[dep]%s|alloc|%s" % (k, short(call_name(t))), "no allocation in the chunk decoder is sized by a client-declared chunk length", (not tainted) or bound is not None, g.loc(bb))
    return {"decoder_panic_sites": n, "decoder_alloc_sinks": ns, "decoder_taint_sources": len(T.sources)}
