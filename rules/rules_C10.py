"""C10 — malformed or unsupported requests never reach the application and never hang."""
import re, operator
from core import *  # noqa
from roles import *  # noqa
import roles, shared, symex, inline, absint
import queue_rules as Q
import parser_rules as PR

EXPLANATION = (
    "Abstract path exploration of the connection parser (next() and the function it reads a request with, each with the helpers of its file and small "
    "std combinators spliced in; nothing depends on how the code is split or spelled): which error value the head reader returns for each cause (request "
    "line with a missing field / unrecognised version, header the header parser rejects, every error of new_request, end of stream, non-ASCII bytes, "
    "timeout) and what next() does with that value: the status of DESIGN A.4 printed exactly once with the right version, nothing delivered, the "
    "connection closed, I/O errors other than a timeout answered with nothing; a request line is only accepted with three fields and a recognised "
    "version; the header parser only accepts a line in which it found a colon; the version gate rejects exactly versions > 1.1, does not deliver, answers "
    "505 through a writer that cannot deadlock (ownership dataflow + mono effect graph) and flushes because the connection stays open; unsupported "
    "Expect is rejected before any body byte is read.")
TRUSTED = ["rustc MIR / trait resolution", "std effect table", "HTTPVersion ordering is lexicographic (checked under C05.2)",
           "MIR of the small std combinators as shipped with the toolchain"]

def run(ctx):
    facts = ctx.facts
    roles.bind(facts)
    PM = PR.pmodel(facts)
    f, rd = PM.nxt, PM.rd
    ctx.touch(f); ctx.touch(rd)
    err = facts.adt(PM.err_adt)
    where = "%s:%d" % (f.file, f.line)

    PR.trace_and_judge(ctx, "C10.1", "C10.2")

    # ---- C10.2 the header parser only accepts a line in which it found the colon
    header_parser_rule(ctx, "C10.2")

    # ---- C10.3 / C10.5 version gate
    paths = [p for p in PM.after_read(PR.Ok_(PR.RQ)) if p.end[0] not in PR.DEAD]
    pconds = []
    has_gate = False
    for p in paths:
        cs = []
        for bb, c in p.conds:
            a = PR.atom_of_cond(c)
            if a and a[0][0] == "version":
                cs.append((a[0], a[1]))
                if a[0][1] in ("gt", "ge", "lt", "le"):
                    has_gate = True
        pconds.append((p, cs))
    ctx.ob("C10.3", "%s|version-gate-present" % PM.cc_next.id, "next() compares the request's version against the supported maximum", has_gate, where)
    samples = [(0, 9), (1, 0), (1, 1), (1, 2), (1, 255), (2, 0), (3, 0), (0, 0), (0, 255), (255, 255), (2, 1), (1, 9)]
    bad, bad_flush = [], []
    for v in samples:
        comp = [p for p, cs in pconds if all((PR.CMP[a[1]](a[2], v) if a[3] else PR.CMP[a[1]](v, a[2])) == val for a, val in cs)]
        for p in comp:
            delivered = p.end[0] == "return" and p.ret() == ("some", PR.RQ)
            st = PR.statuses_of(p)
            pr = PR.prints_of(p)
            if v > (1, 1):
                if delivered or not (p.end[0] == "stop" and p.end[2] == "read-again") or len(pr) != 1 or set(st) != {505}:
                    bad.append((v, Q._ret_str(p), sorted(set(map(str, st)))))
                else:
                    evs = [e for e in p.calls()]
                    i = evs.index(pr[0])
                    if not any(e[6] == "std::io::Write::flush" or re.search(r"Write>::flush$", e[2]) for e in evs[i + 1:]):
                        bad_flush.append(v)
            else:
                if not delivered or 505 in st:
                    bad.append((v, Q._ret_str(p), sorted(set(map(str, st)))))
        if not comp:
            bad.append((v, "no path", []))
    ctx.ob("C10.3", "%s|version-gate-table" % PM.cc_next.id, "exactly the versions above 1.1 are rejected: not returned to the application, answered with exactly one 505, and the parser goes on reading the connection; "
           "every other version is delivered (truth table over representative versions)", not bad, where, None if not bad else str(bad[:3]))
    ctx.ob("C10.5", "%s|505-flushed" % PM.cc_next.id, "the 505 bytes are flushed before the parser waits for the next request (the connection is kept open, so nothing else would push them out)",
           has_gate and not bad_flush, where, None if not bad_flush else "no Write::flush after the 505 raw_print for versions %s" % bad_flush[:3])

    # ---- C10.4 never hangs
    full = inline.inlined(facts, PM.cc_next.id, stop=lambda d: facts.fns[d].rec.get("local") and (not PM.same_file(d) or "{closure#" in d))
    n = shared.own_deadlock_sites(ctx, "C10.4", fns=[full])
    ctx.floor("C10.4 turn-waiting call sites", n, 3)

    # ---- C10.7 the writer abandoned on new_request's error path must not release its successor early
    shared.writer_drop_waits_turn(ctx, "C10.7")

    # ---- C10.6 Expect handling in new_request
    expect_rule(ctx, "C10.6")
    return {}


def header_parser_rule(ctx, rule):
    """`impl FromStr for Header`: Ok only on paths on which the separator was found"""
    facts = ctx.facts
    hp = method(facts, T_FROMSTR, HEADER, "from_str")
    same = lambda d: facts.fns[d].rec.get("local") and facts.fns[d].file == hp.file and ("FromStr" not in d or d.startswith(hp.id + "::"))
    g = inline.inlined(facts, hp.id, stop=lambda d: facts.fns[d].rec.get("local") and not same(d), extern_ok=Q.std_small)
    ctx.touch(g)
    ps = [p for p in absint.explore(g, 0, None, max_paths=3000) if p.end[0] == "return"]
    ctx.paths += len(ps)
    oks = [p for p in ps if p.ret()[0] == "agg" and p.ret()[2] == "Ok"]
    bad = []
    n_sep = 0
    def from_colon_lookup(v):
        """does the term contain the payload of a successful (`Some`) lookup whose scrutinee mentions the ':' separator?"""
        for x in absint.walk_terms(v):
            if x and x[0] == "payload" and x[2] == "Some":
                if any(y and y[0] == "const" and (y[1] == 58 or (isinstance(y[1], str) and ":" in y[1]) or (isinstance(y[2], str) and y[2] in ("':'", "b':'"))) for y in absint.walk_terms(x[1])):
                    return True
        return False
    for p in oks:
        h = absint.deep(p.state, p.ret()[3]["0"])
        parts = list(h[3].values()) if h[0] == "agg" and h[1] == HEADER else []
        n_sep += len(parts)
        if len(parts) < 2 or not all(from_colon_lookup(x) for x in parts):
            bad.append([symex.sym_str(x)[:80] for x in parts])
    ctx.ob(rule, "%s|colon-required" % hp.id, "the header parser accepts a line only when it found the colon (a line without one is an error, never a header with a defaulted name or value)",
           bool(oks) and not bad, "%s:%d" % (hp.file, hp.line), None if not bad else "name / value of an accepted header that do not come from a successful split at the colon: %s" % bad[:3])
    ctx.counts["%s separator lookups on accepting paths" % rule] = n_sep


def expect_rule(ctx, rule):
    facts = ctx.facts
    nr = facts.fn("request::new_request")
    ctx.touch(nr)
    exp = [(bb, t) for bb, t in nr.calls() if call_matches(t, r"eq_ignore_ascii_case$") and "100-continue" in arg_consts(nr, t)]
    ctx.ob(rule, "%s|expect-literal" % nr.id, "Expect is compared case-insensitively with `100-continue`", len(exp) == 1, "%s:%d" % (nr.file, nr.line))
    errs = [bb for bb, i, s in nr.assigns() if s["rhs"]["rv"] == "agg" and s["rhs"].get("variant") == "ExpectationFailed"]
    ctx.ob(rule, "%s|expectation-failed-produced" % nr.id, "an unsupported Expect yields ExpectationFailed", bool(errs), "%s:%d" % (nr.file, nr.line))
    reads = set(nr.call_blocks(lambda t: t.get("callee") in ("std::io::Read::read", "std::io::Read::read_exact", "std::io::Read::read_to_end")))
    if exp and errs:
        bb, t = exp[0]
        bs = bool_switch(nr, t["target"])
        ctx.require(bs is not None, "%s: eq_ignore_ascii_case result is not branched on" % rule)
        f_reach = nr.reach([bs[2]], unwind=False)
        ok = any(e in f_reach for e in errs) and not (nr.reach([bs[2]], blocked=set(errs), unwind=False) & {b for b in nr.live_blocks() if nr.term(b)["t"] == "return"})
        ctx.ob(rule, "%s|other-value-rejected" % nr.id, "any Expect value other than 100-continue leads to the ExpectationFailed return", ok, nr.loc(bb))
        dom = nr.dominators(False)
        cands = [b for b in dom[bb] if switch_on_discr(nr, b) and switch_on_discr(nr, b)[0].get("adt") == "std::option::Option"]
        ctx.require(cands, "%s: no Option match dominates the Expect comparison" % rule)
        dec = max(cands, key=lambda b: len(dom[b]))
        before_body = all(nr.dominates(dec, r, unwind=False) for r in reads)
        ctx.ob(rule, "%s|decided-before-body" % nr.id, "the expectation is decided before any body byte is read", before_body, nr.loc(dec))
        for e in errs:
            r = nr.reach([e], unwind=False)
            ctx.ob(rule, "%s|rejection-reads-nothing" % nr.id, "the rejection path reads no body byte", not (r & reads), nr.loc(e))
