"""C10 — malformed or unsupported requests never reach the application and never hang."""
import re
from core import *  # noqa
from roles import *  # noqa
import roles, shared, symex

EXPLANATION = (
    "Decision-table extraction and must-pass-through over the MIR of ClientConnection::{next,read}, parse_request_line, "
    "parse_http_version, read_next_line and new_request: every ReadError variant is mapped to the status of DESIGN A.4 and "
    "ends the connection without delivering; every Err of the head parsers propagates (no defaulting); the version gate "
    "rejects exactly versions > 1.1, does not deliver, answers 505 through a writer that cannot deadlock (ownership "
    "dataflow + mono effect graph) and flushes because the connection stays open; unsupported Expect is rejected before "
    "any body byte is read.")
TRUSTED = ["rustc MIR / trait resolution", "std effect table", "HTTPVersion ordering is lexicographic (checked under C05.2)"]

EXPECTED_STATUS = {"WrongRequestLine": {400}, "WrongHeader": {400}, "ExpectationFailed": {417}}
DEFAULTING = r"::(unwrap_or|unwrap_or_else|unwrap_or_default|or|or_else|get_or_insert\w*)$"


def run(ctx):
    facts = ctx.facts
    roles.bind(facts)
    f = cc_next = method(facts, T_ITER, CC, "next")
    cc_read = roles.inherent(facts, CC, "read")
    ctx.touch(f)
    read_calls = set(f.call_blocks(lambda t: call_is(t, cc_read.id)))
    ctx.require(len(read_calls) == 1, "C10: expected exactly one read() call in next()")
    some_bbs = {bb for bb, i, s in f.assigns() if s["lhs"] == {"l": 0, "p": []} and s["rhs"]["rv"] == "agg"
                and s["rhs"].get("adt") == "std::option::Option" and s["rhs"].get("variant") == "Some"}
    ctx.require(some_bbs, "C10: next() has no `return Some(..)`")
    statuses = shared.status_consts_in(f)
    raw_prints = {bb: t for bb, t in f.calls() if call_matches(t, r"response::Response::<R>::raw_print$")}

    # ---- C10.1 error classification
    sw_bb = None
    for bb in sorted(f.live_blocks()):
        sw = switch_on_discr(f, bb)
        if sw and sw[0].get("adt") == READERR and not f.blocks[bb]["cleanup"]:
            o = f.origin_place(sw[0]["pl"])
            if origin_has_call(o, r"ClientConnection::read$"):
                sw_bb = bb
                break
    ctx.require(sw_bb is not None, "C10.1: the match on read()'s ReadError was not found")
    rv, m, otherwise, rest = switch_on_discr(f, sw_bb)
    variants = [v["name"] for v in facts.adt(READERR)["variants"]]
    ctx.floor("C10.1 ReadError variants", len(variants), 4)
    for v in variants:
        tgt = m.get(v, otherwise if v in rest else None)
        ctx.require(tgt is not None, "C10.1: variant %s has no arm" % v)
        region = shared.arm_region(f, tgt)
        reach = f.reach([tgt], unwind=False)
        consts = {c for bb, c in statuses if bb in region}
        closes = not (reach & (read_calls | some_bbs)) and any(r in reach for r in f.returns())
        ctx.paths += 1
        ctx.ob("C10.1", "%s|%s|closes" % (f.id, v), "a read error of kind %s ends the connection: nothing is delivered and no further request is read" % v,
               closes, f.loc(tgt), None if closes else "arm reaches the success return or loops back to read()")
        if v in EXPECTED_STATUS:
            ok = consts == EXPECTED_STATUS[v]
            ctx.ob("C10.1", "%s|%s|status" % (f.id, v), "%s is answered with %s" % (v, sorted(EXPECTED_STATUS[v])), ok, f.loc(tgt),
                   None if ok else "status constants on this arm: %s" % sorted(consts, key=str))
            rps = [bb for bb in raw_prints if bb in region]
            ok = len(rps) == 1
            ctx.ob("C10.1", "%s|%s|one-response" % (f.id, v), "exactly one synthetic response is printed on this arm", ok, f.loc(tgt))
            if rps:
                t = raw_prints[rps[0]]
                vo = f.origin(t["args"][2])
                if v == "WrongRequestLine":
                    okv = vo[0] == "agg" and vo[1] == HV and [x[1] for x in vo[2]] == [1, 1]
                    txt = "answered as HTTP/1.1 (the request's version is unknown)"
                else:
                    okv = any(x[0] == "downcast" and x[2] == v for x in origin_walk(vo))
                    txt = "answered with the request's own version (payload of the error)"
                ctx.ob("C10.1", "%s|%s|version" % (f.id, v), txt, okv, f.loc(rps[0]), None if okv else origin_str(vo))
        else:
            # ReadIoError: 408 iff kind() == TimedOut, otherwise silent close
            found = False
            for bb in sorted(region):
                bs = bool_switch(f, bb)
                if not bs:
                    continue
                o = f.origin(bs[0])
                if o[0] != "call" or not re.search(r"ErrorKind as std::cmp::PartialEq>::eq$", o[1]):
                    continue
                cs = [shared.const_of_origin(f, a) for a in o[2]]
                kinds = [shared.sym_const(c[1]) for c in cs if c and c[0] == "promoted"]
                is_kind_call = any(origin_has_call(a, r"std::io::Error::kind$") for a in o[2])
                if not is_kind_call or not kinds:
                    continue
                found = True
                okk = kinds == [("variant", "std::io::ErrorKind", "TimedOut")]
                ctx.ob("C10.1", "%s|ReadIoError|timeout-kind" % f.id, "the 408 arm is selected by io::ErrorKind::TimedOut", okk, f.loc(bb), None if okk else str(kinds))
                t_reg, f_reg = shared.arm_region(f, bs[1]), shared.arm_region(f, bs[2])
                ct = {c for b2, c in statuses if b2 in t_reg}
                cf = {c for b2, c in statuses if b2 in f_reg}
                ctx.ob("C10.1", "%s|ReadIoError|status" % f.id, "a timed-out read is answered with 408, any other I/O error with nothing",
                       ct == {408} and not cf and not any(b2 in f_reg for b2 in raw_prints), f.loc(bb), "true-arm %s false-arm %s" % (sorted(ct), sorted(cf)))
            ctx.ob("C10.1", "%s|ReadIoError|has-timeout-test" % f.id, "the I/O-error arm distinguishes the timeout", found, f.loc(tgt))

    # ---- C10.2 errors of the head parsers propagate; nothing is defaulted
    g = cc_read
    ctx.touch(g)
    rnl = roles.inherent(facts, CC, "read_next_line")
    prl = facts.fn("client::parse_request_line")
    phv = facts.fn("client::parse_http_version")
    hdr_from_str = method(facts, T_FROMSTR, HEADER, "from_str")
    conts = set(g.call_blocks(lambda t: call_is(t, rnl.id) or call_matches(t, r"Vec::<T>::push$|Vec::<T, A>::push$|new_request$")
                              or call_matches(t, r"Sequential(Reader|Writer)Builder<.*> as std::iter::Iterator>::next$")))
    req_cons = {bb for bb, i, s in g.assigns() if s["lhs"] == {"l": 0, "p": []} and s["rhs"]["rv"] == "agg" and s["rhs"].get("variant") == "Ok"}
    targets = [("read_next_line", lambda t: call_is(t, rnl.id)), ("parse_request_line", lambda t: call_is(t, prl.id)),
               ("Header::from_str", lambda t: call_is(t, hdr_from_str.id)), ("new_request", lambda t: call_matches(t, r"^request::new_request$"))]
    for nm, pred in targets:
        bbs = g.call_blocks(pred)
        ctx.require(bbs, "C10.2: call to %s not found in read()" % nm)
        for k, bb in enumerate(bbs):
            ctx.call_sites += 1
            rs = shared.result_switch(g, bb)
            if not rs or "err" not in rs or rs["err"] is None:
                ctx.ob("C10.2", "%s|%s|%d" % (g.id, nm, k), "the Err of %s is branched on and propagated" % nm, False, g.loc(bb),
                       "result is not branched on: %s" % (rs,))
                continue
            reach = g.reach([rs["err"]], unwind=False)
            ok = not (reach & (conts | req_cons)) and any(r in reach for r in g.returns())
            region = shared.arm_region(g, rs["err"])
            sets_err = any((g.term(b)["t"] == "call" and g.term(b).get("callee") == "std::ops::FromResidual::from_residual" and g.term(b)["dest"] == {"l": 0, "p": []})
                           or any(s["s"] == "assign" and s["lhs"] == {"l": 0, "p": []} and s["rhs"].get("variant") == "Err" for s in g.stmts(b)) for b in region)
            ctx.ob("C10.2", "%s|%s|%d" % (g.id, nm, k), "a failure of %s makes read() return Err without parsing further or building a Request" % nm,
                   ok and sets_err, g.loc(bb), None if ok and sets_err else "err-edge reaches continuation/Ok construction or does not return Err")
    # no defaulting combinator anywhere in the head parsers
    heads = [g, prl, phv, rnl] + facts.find_fns(r"^client::parse_request_line::\{closure") + facts.find_fns(r"^client::ClientConnection::read(_next_line)?::\{closure") \
        + facts.find_fns(r"^<common::Header as std::str::FromStr>::from_str") + facts.find_fns(r"^<common::HeaderField as std::str::FromStr>::from_str")
    ndef = 0
    for h in heads:
        ctx.touch(h)
        for bb, t in h.calls():
            ctx.call_sites += 1
            if call_matches(t, DEFAULTING):
                ndef += 1
                ctx.ob("C10.2", "%s|defaulting|%s" % (h.id, short(call_name(t))), "no parse failure of the request head is replaced by a default value", False, h.loc(bb))
    ctx.ob("C10.2", "head-parsers|no-defaulting", "no parse failure of the request head is replaced by a default value (unwrap_or*, or*, ...)", ndef == 0, prl.file)
    # parse_request_line: absent field => WrongRequestLine
    wr = [(bb, s) for bb, i, s in prl.assigns() if s["rhs"]["rv"] == "agg" and s["rhs"].get("adt") == READERR and s["rhs"].get("variant") == "WrongRequestLine"]
    ctx.ob("C10.2", "%s|yields-WrongRequestLine" % prl.id, "parse_request_line produces WrongRequestLine", bool(wr), "%s:%d" % (prl.file, prl.line))
    for cl in facts.find_fns(r"^client::parse_request_line::\{closure"):
        ups = [fl for fl in cl.locals[1:2]]
        # every captured Option must be `?`-propagated (Try::branch) or matched on
        caps = set()
        for bb, i, s in cl.assigns():
            for p, kind in rvalue_places(s["rhs"]):
                if p["l"] == 1 and pl_fields(p) and kind == "move":
                    caps.add((pl_fields(p)[0], s["lhs"]["l"]))
        for name, l in sorted(caps):
            if not cl.local_ty(l).startswith("std::option::Option<"):
                continue
            used = [u for u in cl.uses().get(l, []) if u[0] == "term" and u[2]["t"] == "call"]
            ok = any(u[2].get("callee") == "std::ops::Try::branch" for u in used)
            ctx.ob("C10.2", "%s|captured-%s-propagated" % (cl.id, name), "a missing request-line field (%s) makes the whole line invalid" % name, ok, "%s:%d" % (cl.file, cl.line))
    # parse_http_version: any token outside the table is an error
    tbl = shared.str_match_table(phv)
    ctx.floor("C10.2 version literals", len(tbl), 2)
    falses = {fb for _, tb, fb, cb in tbl}
    cmp_blocks = {cb for _, tb, fb, cb in tbl}
    defaults = [fb for fb in falses if fb not in cmp_blocks]
    ctx.require(len(defaults) == 1, "C10.2: cannot identify the fallback arm of parse_http_version")
    outs = shared.eval_from(phv, defaults[0])
    ok = bool(outs) and all(st.read_key((0,))[0] == "agg" and st.read_key((0,))[2] == "Err" for p, st in outs)
    ctx.ob("C10.2", "%s|fallback-is-error" % phv.id, "an unrecognised version token is an error", ok, phv.loc(defaults[0]))
    # read_next_line: EOF and non-ASCII are errors (the Ok value is only built from from_ascii's Ok)
    ctx.touch(rnl)
    fa = rnl.call_blocks(lambda t: call_matches(t, r"ascii::AsciiString::from_ascii$"))
    ok = bool(fa)
    for b in fa:
        ret = rnl.origin_place({"l": 0, "p": []})
    ok_assigns = [(bb, s) for bb, i, s in rnl.assigns() if s["lhs"] == {"l": 0, "p": []} and s["rhs"].get("variant") == "Ok"]
    ctx.ob("C10.2", "%s|ascii-checked" % rnl.id, "a line is returned only through AsciiString::from_ascii (non-ASCII bytes make the read fail)",
           bool(fa) and not ok_assigns, "%s:%d" % (rnl.file, rnl.line))

    # ---- C10.3 version gate
    gate = None
    for bb, t in f.calls():
        if call_matches(t, r"<common::HTTPVersion as std::cmp::PartialOrd<\(u8, u8\)>>::(gt|ge|lt|le)$|<common::HTTPVersion as std::cmp::PartialOrd>::(gt|ge|lt|le)$"):
            nt = t.get("target")
            bs = bool_switch(f, nt) if nt is not None else None
            if bs and any(c in {505} for b2, c in statuses if b2 in shared.arm_region(f, bs[1]) | shared.arm_region(f, bs[2])):
                gate = (bb, t, bs)
    ctx.ob("C10.3", "%s|version-gate-present" % f.id, "next() compares the request's version against the supported maximum", gate is not None, "%s:%d" % (f.file, f.line))
    if gate:
        bb, t, bs = gate
        opname = t["name"]
        a0, a1 = f.origin(t["args"][0]), f.origin(t["args"][1])
        c1 = shared.const_of_origin(f, a1)
        bound = shared.sym_const(c1[1]) if c1 and c1[0] == "promoted" else None
        lhs_is_version = origin_has_call(a0, r"Request::http_version$")
        t_505 = any(c == 505 for b2, c in statuses if b2 in shared.arm_region(f, bs[1]))
        import operator
        ops = {"gt": operator.gt, "ge": operator.ge, "lt": operator.lt, "le": operator.le}
        samples = [(0, 9), (1, 0), (1, 1), (1, 2), (1, 255), (2, 0), (3, 0), (0, 0), (0, 255), (255, 255), (2, 1), (1, 9)]
        ok = lhs_is_version and isinstance(bound, tuple) and len(bound) == 2
        bad = []
        if ok:
            for v in samples:
                rejected = ops[opname](v, bound) == t_505
                if rejected != (v > (1, 1)):
                    bad.append(v)
        ctx.ob("C10.3", "%s|version-gate-table" % f.id, "the gate rejects exactly the versions above 1.1 (truth table over representative versions)",
               ok and not bad, f.loc(bb), None if ok and not bad else "op=%s bound=%s mismatching versions=%s" % (opname, bound, bad))
        rej_tgt = bs[1] if t_505 else bs[2]
        acc_tgt = bs[2] if t_505 else bs[1]
        # cut the loop at the read() call: what the rejecting arm itself can reach
        reach = f.reach([rej_tgt], blocked=read_calls, unwind=False)
        not_delivered = not (reach & some_bbs)
        loops = any(rc in f.reach([rej_tgt], unwind=False) for rc in read_calls)
        ctx.ob("C10.3", "%s|rejected-not-delivered" % f.id, "a request with an unsupported version is not returned to the application", not_delivered, f.loc(rej_tgt))
        ctx.ob("C10.3", "%s|connection-continues" % f.id, "after the 505 the parser goes on reading the connection", loops, f.loc(rej_tgt))
        region = shared.arm_region(f, rej_tgt)
        rps = [b2 for b2 in raw_prints if b2 in region]
        ctx.ob("C10.3", "%s|505-printed" % f.id, "exactly one 505 response is printed on the rejecting arm", len(rps) == 1 and {c for b2, c in statuses if b2 in region} == {505}, f.loc(rej_tgt))
        # C10.5 the connection stays open, so the 505 must be flushed before looping
        flushes = {b2 for b2 in region if f.term(b2)["t"] == "call" and f.term(b2).get("callee") == "std::io::Write::flush"}
        ok = bool(rps) and bool(flushes)
        if ok:
            after = [f.normal_target(rps[0])]
            r2 = f.reach(after, blocked=flushes | {b for b in f.live_blocks() if f.blocks[b]["cleanup"]}, unwind=False)
            ok = not (r2 & read_calls)
        ctx.ob("C10.5", "%s|505-flushed" % f.id, "the 505 bytes are flushed before the parser waits for the next request (the connection is kept open, so nothing else would push them out)",
               ok, f.loc(rej_tgt), None if ok else "no Write::flush between the 505 raw_print and the loop back to read()")

    # ---- C10.4 never hangs
    n = shared.own_deadlock_sites(ctx, "C10.4")
    ctx.floor("C10.4 turn-waiting call sites", n, 3)

    # ---- C10.7 "earlier pipelined requests are still answered first": a rejection response is written through a
    # writer drawn from the same chain (C01.6); the writer abandoned on new_request's error path must not release it early
    shared.writer_drop_waits_turn(ctx, "C10.7")

    # ---- C10.6 Expect handling in new_request
    nr = facts.fn("request::new_request")
    ctx.touch(nr)
    exp = [(bb, t) for bb, t in nr.calls() if call_matches(t, r"eq_ignore_ascii_case$") and "100-continue" in arg_consts(nr, t)]
    ctx.ob("C10.6", "%s|expect-literal" % nr.id, "Expect is compared case-insensitively with `100-continue`", len(exp) == 1, "%s:%d" % (nr.file, nr.line))
    errs = [bb for bb, i, s in nr.assigns() if s["rhs"]["rv"] == "agg" and s["rhs"].get("variant") == "ExpectationFailed"]
    ctx.ob("C10.6", "%s|expectation-failed-produced" % nr.id, "an unsupported Expect yields ExpectationFailed", bool(errs), "%s:%d" % (nr.file, nr.line))
    reads = set(nr.call_blocks(lambda t: t.get("callee") in ("std::io::Read::read", "std::io::Read::read_exact", "std::io::Read::read_to_end")))
    if exp and errs:
        bb, t = exp[0]
        bs = bool_switch(nr, t["target"])
        ctx.require(bs is not None, "C10.6: eq_ignore_ascii_case result is not branched on")
        f_reach = nr.reach([bs[2]], unwind=False)
        ok = any(e in f_reach for e in errs) and not (nr.reach([bs[2]], blocked=set(errs), unwind=False) & {b for b in nr.live_blocks() if nr.term(b)["t"] == "return"}) 
        ctx.ob("C10.6", "%s|other-value-rejected" % nr.id, "any Expect value other than 100-continue leads to the ExpectationFailed return", ok, nr.loc(bb))
        # decision point: the innermost Option-discriminant switch dominating the comparison
        dom = nr.dominators(False)
        cands = [b for b in dom[bb] if switch_on_discr(nr, b) and switch_on_discr(nr, b)[0].get("adt") == "std::option::Option"]
        ctx.require(cands, "C10.6: no Option match dominates the Expect comparison")
        dec = max(cands, key=lambda b: len(dom[b]))
        before_body = all(nr.dominates(dec, r, unwind=False) for r in reads)
        ctx.ob("C10.6", "%s|decided-before-body" % nr.id, "the expectation is decided before any body byte is read", before_body, nr.loc(dec))
        for e in errs:
            r = nr.reach([e], unwind=False)
            ctx.ob("C10.6", "%s|rejection-reads-nothing" % nr.id, "the rejection path reads no body byte", not (r & reads), nr.loc(e))
    return {}
