"""C10 — malformed or unsupported requests never reach the application and never hang."""
import re, operator
from core import *  # noqa
from roles import *  # noqa
import roles, shared, symex, inline, absint
import queue_rules as Q
import parser_rules as PR

EXPLANATION = (
    "Abstract path exploration of the connection parser (next() and the function it reads a request with, each with the helpers of its file and small "
    "std combinators spliced in; nothing depends on how the code is split or spelled): which error value the head reader returns for each cause (request "
    "line with a missing field / unrecognised version, header the header parser rejects, every error of new_request, end of stream, non-ASCII bytes, "
    "timeout) and what next() does with that value: the status of DESIGN A.4 printed exactly once with the right version, nothing delivered, the "
    "connection closed, I/O errors other than a timeout answered with nothing; a request line is only accepted with three fields and a recognised "
    "version; the header parser only accepts a line in which it found a colon; the version gate rejects exactly versions > 1.1, does not deliver, answers "
    "505 through a writer that cannot deadlock (ownership dataflow + mono effect graph) and flushes because the connection stays open; unsupported "
    "Expect is rejected before any body byte is read.")
TRUSTED = ["rustc MIR / trait resolution", "std effect table", "HTTPVersion ordering is lexicographic (checked under C05.2)",
           "MIR of the small std combinators as shipped with the toolchain"]

LINE_TY = r"^std::result::Result<(ascii::AsciiString|std::string::String|std::vec::Vec<u8>), std::io::Error>$"
LINE = ("sym", "line")
VER = ("sym", "version-of-the-request")
DEAD = ("diverge", "resume", "terminate", "unreachable")


def returns_type(f, x, needle):
    """does the call term x produce a value whose type mentions `needle`? (declared return type of the callee when it is a
    crate function, else the type of the destination of the call site)"""
    g = f.facts.fns.get(x[1])
    if g is not None and needle in g.locals[0]["ty"]:
        return True
    bb = x[3] if len(x) > 3 else None
    if isinstance(bb, int) and 0 <= bb < f.n:
        t = f.blocks[bb].get("inl_call") or f.term(bb)
        if t.get("t") == "call" or "dest" in t:
            return needle in f.local_ty(t["dest"]["l"])
    return False


def statuses_of(p):
    out = []
    for e in p.calls():
        for a in e[3]:
            for x in absint.walk_terms(absint.deep(p.state, a)):
                if x and x[0] == "agg" and x[1] == STATUS:
                    c = absint.const_of(list(x[3].values())[0]) if x[3] else None
                    out.append(c)
    return out


def prints_of(p):
    return [e for e in p.calls() if re.search(r"response::Response::<R>::raw_print$", e[2])]


def version_arg(p, e):
    """the HTTP version a raw_print answers with (3rd argument)"""
    return absint.deep(p.state, e[3][2]) if len(e[3]) > 2 else None


def io_error(kind):
    return ("call", "std::io::Error::new", [("agg", "std::io::ErrorKind", kind, {}), ("const", "x", '"x"', None)], -1, "")


def run(ctx):
    facts = ctx.facts
    roles.bind(facts)
    PM = PR.pmodel(facts)
    f, rd = PM.nxt, PM.rd
    ctx.touch(f); ctx.touch(rd)
    err = facts.adt(PM.err_adt)
    where = "%s:%d" % (f.file, f.line)

    def verdict(x, label, want_status, want_version):
        """what next() does with read() == Err(x)"""
        ps = [p for p in PM.after_read(PR.Err_(x), on_call=absint.io_model) if p.end[0] not in DEAD]
        ctx.paths += len(ps)
        bad = []
        for p in ps:
            if not (p.end[0] == "return" and p.ret() == ("none",)):
                bad.append("does not end the connection: %s" % Q._ret_str(p))
                continue
            pr = prints_of(p)
            st = [s for s in statuses_of(p)]
            if want_status is None:
                if pr:
                    bad.append("answers with %s" % st)
                continue
            if len(pr) != 1 or set(st) != {want_status}:
                bad.append("prints %d responses with status %s" % (len(pr), sorted(set(map(str, st)))))
                continue
            va = version_arg(p, pr[0])
            if want_version == "1.1":
                okv = PR.version_const(va) == (1, 1)
            else:
                # the version the head reader had parsed (not a constant)
                okv = absint.contains(va, VER) or (PR.version_const(va) is None and not any(x and x[0] == "const" for x in absint.walk_terms(va)))
            if not okv:
                bad.append("answers with version %s" % symex.sym_str(va))
        ok = bool(ps) and not bad
        what = ("answered with nothing" if want_status is None else "answered with %s (%s)" % (want_status, "as HTTP/1.1" if want_version == "1.1" else "with the request's own version"))
        ctx.ob("C10.1", "%s|%s" % (PM.cc_next.id, label), "%s: the connection ends, nothing is delivered, no further request is read, and the client is %s" % (label, what), ok, where,
               None if ok else str(bad[:3]))

    # ---- C10.1 (a) what read() returns for each cause ------------------------------------------------------------
    causes = []          # (label, error term, status, version)
    # header parser failure
    hp = [bb for bb, t in rd.calls() if rd.local_ty(t["dest"]["l"]).startswith("std::result::Result<common::Header,") and not t["dest"]["p"]]
    ctx.ob("C10.2", "%s|parses-headers" % PM.read_def, "the head reader hands every header line to the header parser", bool(hp), "%s:%d" % (rd.file, rd.line))
    for k, bb in enumerate(hp):
        t = rd.term(bb)
        st = symex.Sym(rd)
        st.write_key((rd.argc + 1000000,), ("unit",))
        st.write_key(pl_key(t["dest"]), PR.Err_(("unit",)))
        # the version parsed from the request line is whatever the function holds at this point: mark every HTTPVersion local
        for i, l in enumerate(rd.locals):
            if l["ty"] == HV:
                st.write_key((i,), VER)
        ps = [p for p in absint.explore(rd, t["target"], st) if p.end[0] not in DEAD]
        bad = [Q._ret_str(p) for p in ps if not (p.end[0] == "return" and p.ret()[0] == "agg" and p.ret()[2] == "Err")]
        ctx.ob("C10.2", "%s|header-error-propagates|%d" % (PM.read_def, k), "a header line the header parser rejects makes the head reader return an error (no request is built, the line is not skipped)",
               bool(ps) and not bad, rd.loc(bb), None if not bad else str(bad[:3]))
        for p in ps:
            if p.end[0] == "return" and p.ret()[0] == "agg" and p.ret()[2] == "Err":
                causes.append(("malformed header line", p.ret()[3]["0"], 400, "own"))
    # new_request failures
    nrc = [bb for bb, t in rd.calls() if call_matches(t, r"^request::new_request$")]
    ctx.ob("C10.2", "%s|builds-request" % PM.read_def, "the head reader builds the request with new_request", len(nrc) == 1, "%s:%d" % (rd.file, rd.line))
    for bb in nrc:
        t = rd.term(bb)
        ty = rd.local_ty(t["dest"]["l"])
        mm = re.match(r"^std::result::Result<request::Request, ([\w:]+)>$", ty)
        ctx.require(mm and mm.group(1) in facts.adts, "C10.1: error type of new_request")
        for v in facts.adt(mm.group(1))["variants"]:
            tys = [x["ty"] for x in v["fields"]]
            kinds = ["TimedOut", "ConnectionAborted"] if tys == ["std::io::Error"] else [None]
            for kind in kinds:
                st = symex.Sym(rd)
                payload = {v["fields"][0]["name"]: io_error(kind)} if kind else {x["name"]: ("sym", x["name"]) for x in v["fields"]}
                st.write_key(pl_key(t["dest"]), PR.Err_(("agg", mm.group(1), v["name"], payload)))
                for i, l in enumerate(rd.locals):
                    if l["ty"] == HV:
                        st.write_key((i,), VER)
                ps = [p for p in absint.explore(rd, t["target"], st) if p.end[0] not in DEAD]
                bad = [Q._ret_str(p) for p in ps if not (p.end[0] == "return" and p.ret()[0] == "agg" and p.ret()[2] == "Err")]
                ctx.ob("C10.2", "%s|new_request-error-propagates|%s" % (PM.read_def, v["name"]), "an error of new_request makes the head reader return an error", bool(ps) and not bad, rd.loc(bb),
                       None if not bad else str(bad[:3]))
                for p in ps:
                    if p.end[0] == "return" and p.ret()[0] == "agg" and p.ret()[2] == "Err":
                        x = p.ret()[3]["0"]
                        if kind == "TimedOut":
                            causes.append(("read timeout while buffering the body", x, 408, "1.1"))
                        elif kind:
                            causes.append(("I/O error while buffering the body", x, None, None))
                        elif re.search(r"expect", v["name"], re.I):
                            causes.append(("unsupported Expect value", x, 417, "own"))
                        else:
                            causes.append(("%s reported by new_request" % v["name"], x, 400, "own"))
    # the line reader: end of stream, non-ASCII, timeout
    lines = [b for b in range(rd.n) if rd.blocks[b].get("inl_call") and re.match(LINE_TY, rd.local_ty(rd.blocks[b]["inl_call"]["dest"]["l"]))]
    ctx.ob("C10.2", "%s|reads-lines" % PM.read_def, "the head reader obtains the head line by line from a line reader of its own", bool(lines), "%s:%d" % (rd.file, rd.line))
    first = [b for b in lines if all(rd.dominates(b, x, unwind=False) for x in lines)]
    for k, b in enumerate(lines):
        ic = rd.blocks[b]["inl_call"]
        for label, kind, status, ver in (("end of stream in the head", "ConnectionAborted", None, None), ("non-ASCII bytes in the head", "InvalidInput", None, None), ("read timeout in the head", "TimedOut", 408, "1.1")):
            st = symex.Sym(rd)
            st.write_key(pl_key(ic["dest"]), PR.Err_(io_error(kind)))
            for i, l in enumerate(rd.locals):
                if l["ty"] == HV:
                    st.write_key((i,), VER)
            ps = [p for p in absint.explore(rd, ic["target"], st) if p.end[0] not in DEAD]
            bad = [Q._ret_str(p) for p in ps if not (p.end[0] == "return" and p.ret()[0] == "agg" and p.ret()[2] == "Err")]
            ctx.ob("C10.2", "%s|line-error-propagates|%d|%s" % (PM.read_def, k, kind), "a failure of the line reader makes the head reader return an error", bool(ps) and not bad, rd.loc(b), None if not bad else str(bad[:3]))
            if k == 0 or b in first:
                for p in ps:
                    if p.end[0] == "return" and p.ret()[0] == "agg" and p.ret()[2] == "Err":
                        causes.append((label, p.ret()[3]["0"], status, ver))
    # request line
    if len(first) == 1:
        b = first[0]
        ic = rd.blocks[b]["inl_call"]
        st = symex.Sym(rd)
        st.write_key(pl_key(ic["dest"]), PR.Ok_(LINE))
        others = set(lines) - {b}
        ps = [p for p in absint.Explorer(rd, stop_blocks=others, max_paths=6000, max_visits=1).run(ic["target"], st) if p.end[0] not in DEAD]
        ctx.paths += len(ps)
        good = [p for p in ps if p.end[0] == "stop"]
        bad_fields, bad_version = [], []
        for p in good:
            nexts = []
            vers = []
            for bb, c in p.conds:
                if not c:
                    continue
                if c[0] == "variant" and c[2] in ("Some", "None"):
                    calls = absint.calls_in(c[3])
                    if calls and re.search(r"(Split\w*<.*> as std::iter::Iterator>::next|SplitWhitespace<.*> as std::iter::Iterator>::next|::split_once|::splitn)", calls[0][1] + " " + (calls[0][4] if len(calls[0]) > 4 else "")):
                        if c[3][0] == "call" and re.search(r"Iterator>::next$", c[3][1]):
                            nexts.append(c[2])
                    if c[3][0] == "call" and returns_type(rd, c[3], HV):
                        vers.append(c[2] in ("Some", "Ok"))
                if c[0] == "variant" and c[2] in ("Ok", "Err"):
                    calls = absint.calls_in(c[3])
                    if c[3][0] == "call" and returns_type(rd, c[3], HV):
                        vers.append(c[2] == "Ok")
                if c[0] == "scalar" and isinstance(c[2], bool) and c[1][0] == "call" and re.search(r"PartialEq.*for str>::eq$|<str as std::cmp::PartialEq>::eq$|<impl std::cmp::PartialEq for str>::eq$", c[1][1]):
                    lits = [PR.const_str(a) for a in c[1][2]]
                    if any(isinstance(l, str) and l.startswith("HTTP/") for l in lits):
                        vers.append(c[2])
            if len(nexts) < 3 or nexts[:3] != ["Some"] * 3:
                bad_fields.append(nexts)
            if not any(vers):
                bad_version.append(vers)
        ctx.ob("C10.2", "%s|request-line-needs-three-fields" % PM.read_def, "a request line is only accepted when its first three space-separated fields are present", bool(good) and not bad_fields,
               rd.loc(b), None if not bad_fields else "accepted with field presence %s" % bad_fields[:3])
        ctx.ob("C10.2", "%s|request-line-needs-known-version" % PM.read_def, "a request line is only accepted when its version token was recognised", bool(good) and not bad_version,
               rd.loc(b), None if not bad_version else "accepted although every version test failed: %s" % bad_version[:3])
        errs = {}
        for p in ps:
            if p.end[0] == "return" and p.ret()[0] == "agg" and p.ret()[2] == "Err":
                errs[repr(p.ret()[3]["0"])] = p.ret()[3]["0"]
        odd = [Q._ret_str(p) for p in ps if p.end[0] == "return" and not (p.ret()[0] == "agg" and p.ret()[2] == "Err")]
        ctx.ob("C10.2", "%s|request-line-error-is-error" % PM.read_def, "a rejected request line makes the head reader return an error", bool(errs) and not odd, rd.loc(b), None if not odd else str(odd[:2]))
        for x in errs.values():
            causes.append(("malformed request line", x, 400, "1.1"))
    else:
        ctx.ob("C10.2", "%s|request-line-first" % PM.read_def, "the request line is the first line read", False, "%s:%d" % (rd.file, rd.line))

    # ---- C10.1 (b) what next() does with each of those values -------------------------------------------------------
    seen = set()
    for label, x, status, ver in causes:
        k = (label, repr(x))
        if k in seen:
            continue
        seen.add(k)
        verdict(x, label, status, ver)
    ctx.floor("C10.1 distinct error causes traced from the head reader into next()", len({l for l, _ in seen}), 6)
    # every variant of the error type is handled in a closing way (also ones no cause above produces)
    for v in err["variants"]:
        tys = [x["ty"] for x in v["fields"]]
        payload = {x["name"]: (io_error("ConnectionReset") if x["ty"] == "std::io::Error" else (VER if x["ty"] == HV else ("sym", x["name"]))) for x in v["fields"]}
        ps = [p for p in PM.after_read(PR.Err_(("agg", PM.err_adt, v["name"], payload)), on_call=absint.io_model) if p.end[0] not in DEAD]
        ok = bool(ps) and all(p.end[0] == "return" and p.ret() == ("none",) for p in ps)
        ctx.ob("C10.1", "%s|%s|closes" % (PM.cc_next.id, v["name"]), "every kind of read error ends the connection: nothing is delivered and no further request is read", ok, where)

    # ---- C10.2 the header parser only accepts a line in which it found the colon
    header_parser_rule(ctx, "C10.2")

    # ---- C10.3 / C10.5 version gate
    paths = [p for p in PM.after_read(PR.Ok_(PR.RQ)) if p.end[0] not in DEAD]
    pconds = []
    has_gate = False
    for p in paths:
        cs = []
        for bb, c in p.conds:
            a = PR.atom_of_cond(c)
            if a and a[0][0] == "version":
                cs.append((a[0], a[1]))
                if a[0][1] in ("gt", "ge", "lt", "le"):
                    has_gate = True
        pconds.append((p, cs))
    ctx.ob("C10.3", "%s|version-gate-present" % PM.cc_next.id, "next() compares the request's version against the supported maximum", has_gate, where)
    samples = [(0, 9), (1, 0), (1, 1), (1, 2), (1, 255), (2, 0), (3, 0), (0, 0), (0, 255), (255, 255), (2, 1), (1, 9)]
    bad, bad_flush = [], []
    for v in samples:
        comp = [p for p, cs in pconds if all((PR.CMP[a[1]](a[2], v) if a[3] else PR.CMP[a[1]](v, a[2])) == val for a, val in cs)]
        for p in comp:
            delivered = p.end[0] == "return" and p.ret() == ("some", PR.RQ)
            st = statuses_of(p)
            pr = prints_of(p)
            if v > (1, 1):
                if delivered or not (p.end[0] == "stop" and p.end[2] == "read-again") or len(pr) != 1 or set(st) != {505}:
                    bad.append((v, Q._ret_str(p), sorted(set(map(str, st)))))
                else:
                    evs = [e for e in p.calls()]
                    i = evs.index(pr[0])
                    if not any(e[6] == "std::io::Write::flush" or re.search(r"Write>::flush$", e[2]) for e in evs[i + 1:]):
                        bad_flush.append(v)
            else:
                if not delivered or 505 in st:
                    bad.append((v, Q._ret_str(p), sorted(set(map(str, st)))))
        if not comp:
            bad.append((v, "no path", []))
    ctx.ob("C10.3", "%s|version-gate-table" % PM.cc_next.id, "exactly the versions above 1.1 are rejected: not returned to the application, answered with exactly one 505, and the parser goes on reading the connection; "
           "every other version is delivered (truth table over representative versions)", not bad, where, None if not bad else str(bad[:3]))
    ctx.ob("C10.5", "%s|505-flushed" % PM.cc_next.id, "the 505 bytes are flushed before the parser waits for the next request (the connection is kept open, so nothing else would push them out)",
           has_gate and not bad_flush, where, None if not bad_flush else "no Write::flush after the 505 raw_print for versions %s" % bad_flush[:3])

    # ---- C10.4 never hangs
    full = inline.inlined(facts, PM.cc_next.id, stop=lambda d: facts.fns[d].rec.get("local") and (not PM.same_file(d) or "{closure#" in d))
    n = shared.own_deadlock_sites(ctx, "C10.4", fns=[full])
    ctx.floor("C10.4 turn-waiting call sites", n, 3)

    # ---- C10.7 the writer abandoned on new_request's error path must not release its successor early
    shared.writer_drop_waits_turn(ctx, "C10.7")

    # ---- C10.6 Expect handling in new_request
    expect_rule(ctx, "C10.6")
    return {}


def header_parser_rule(ctx, rule):
    """`impl FromStr for Header`: Ok only on paths on which the separator was found"""
    facts = ctx.facts
    hp = method(facts, T_FROMSTR, HEADER, "from_str")
    same = lambda d: facts.fns[d].rec.get("local") and facts.fns[d].file == hp.file and ("FromStr" not in d or d.startswith(hp.id + "::"))
    g = inline.inlined(facts, hp.id, stop=lambda d: facts.fns[d].rec.get("local") and not same(d), extern_ok=Q.std_small)
    ctx.touch(g)
    ps = [p for p in absint.explore(g, 0, None, max_paths=3000) if p.end[0] == "return"]
    ctx.paths += len(ps)
    oks = [p for p in ps if p.ret()[0] == "agg" and p.ret()[2] == "Ok"]
    bad = []
    n_sep = 0
    def from_colon_lookup(v):
        """does the term contain the payload of a successful (`Some`) lookup whose scrutinee mentions the ':' separator?"""
        for x in absint.walk_terms(v):
            if x and x[0] == "payload" and x[2] == "Some":
                if any(y and y[0] == "const" and (y[1] == 58 or (isinstance(y[1], str) and ":" in y[1]) or (isinstance(y[2], str) and y[2] in ("':'", "b':'"))) for y in absint.walk_terms(x[1])):
                    return True
        return False
    for p in oks:
        h = absint.deep(p.state, p.ret()[3]["0"])
        parts = list(h[3].values()) if h[0] == "agg" and h[1] == HEADER else []
        n_sep += len(parts)
        if len(parts) < 2 or not all(from_colon_lookup(x) for x in parts):
            bad.append([symex.sym_str(x)[:80] for x in parts])
    ctx.ob(rule, "%s|colon-required" % hp.id, "the header parser accepts a line only when it found the colon (a line without one is an error, never a header with a defaulted name or value)",
           bool(oks) and not bad, "%s:%d" % (hp.file, hp.line), None if not bad else "name / value of an accepted header that do not come from a successful split at the colon: %s" % bad[:3])
    ctx.counts["%s separator lookups on accepting paths" % rule] = n_sep


def expect_rule(ctx, rule):
    facts = ctx.facts
    nr = facts.fn("request::new_request")
    ctx.touch(nr)
    exp = [(bb, t) for bb, t in nr.calls() if call_matches(t, r"eq_ignore_ascii_case$") and "100-continue" in arg_consts(nr, t)]
    ctx.ob(rule, "%s|expect-literal" % nr.id, "Expect is compared case-insensitively with `100-continue`", len(exp) == 1, "%s:%d" % (nr.file, nr.line))
    errs = [bb for bb, i, s in nr.assigns() if s["rhs"]["rv"] == "agg" and s["rhs"].get("variant") == "ExpectationFailed"]
    ctx.ob(rule, "%s|expectation-failed-produced" % nr.id, "an unsupported Expect yields ExpectationFailed", bool(errs), "%s:%d" % (nr.file, nr.line))
    reads = set(nr.call_blocks(lambda t: t.get("callee") in ("std::io::Read::read", "std::io::Read::read_exact", "std::io::Read::read_to_end")))
    if exp and errs:
        bb, t = exp[0]
        bs = bool_switch(nr, t["target"])
        ctx.require(bs is not None, "%s: eq_ignore_ascii_case result is not branched on" % rule)
        f_reach = nr.reach([bs[2]], unwind=False)
        ok = any(e in f_reach for e in errs) and not (nr.reach([bs[2]], blocked=set(errs), unwind=False) & {b for b in nr.live_blocks() if nr.term(b)["t"] == "return"})
        ctx.ob(rule, "%s|other-value-rejected" % nr.id, "any Expect value other than 100-continue leads to the ExpectationFailed return", ok, nr.loc(bb))
        dom = nr.dominators(False)
        cands = [b for b in dom[bb] if switch_on_discr(nr, b) and switch_on_discr(nr, b)[0].get("adt") == "std::option::Option"]
        ctx.require(cands, "%s: no Option match dominates the Expect comparison" % rule)
        dec = max(cands, key=lambda b: len(dom[b]))
        before_body = all(nr.dominates(dec, r, unwind=False) for r in reads)
        ctx.ob(rule, "%s|decided-before-body" % nr.id, "the expectation is decided before any body byte is read", before_body, nr.loc(dec))
        for e in errs:
            r = nr.reach([e], unwind=False)
            ctx.ob(rule, "%s|rejection-reads-nothing" % nr.id, "the rejection path reads no body byte", not (r & reads), nr.loc(e))
