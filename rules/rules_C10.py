"""C10 — malformed or unsupported requests never reach the application and never hang."""
import re, operator
from core import *  # noqa
from roles import *  # noqa
import roles, shared, symex, inline, absint
import queue_rules as Q
import parser_rules as PR

EXPLANATION = (
    "Abstract path exploration of the connection parser (next() and the function it reads a request with, each with the helpers of its file and small "
    "std combinators spliced in; nothing depends on how the code is split or spelled): which error value the head reader returns for each cause (request "
    "line with a missing field / unrecognised version, header the header parser rejects, every error of new_request, end of stream, non-ASCII bytes, "
    "timeout) and what next() does with that value: the status of DESIGN A.4 printed exactly once with the right version, nothing delivered, the "
    "connection closed, I/O errors other than a timeout answered with nothing; a request line is only accepted with three fields and a recognised "
    "version; the header parser only accepts a line in which it found a colon; the version gate rejects exactly versions > 1.1, does not deliver, answers "
    "505 through a writer that cannot deadlock (ownership dataflow + mono effect graph) and flushes because the connection stays open; unsupported "
    "Expect is rejected before any body byte is read.")
TRUSTED = ["rustc MIR / trait resolution", "std effect table", "HTTPVersion ordering is lexicographic (checked under C05.2)",
           "MIR of the small std combinators as shipped with the toolchain"]

def run(ctx):
    facts = ctx.facts
    roles.bind(facts)
    PM = PR.pmodel(facts)
    f, rd = PM.nxt, PM.rd
    ctx.touch(f); ctx.touch(rd)
    err = facts.adt(PM.err_adt)
    where = "%s:%d" % (f.file, f.line)

    PR.trace_and_judge(ctx, "C10.1", "C10.2")

    # ---- C10.2 the header parser only accepts a line in which it found the colon
    header_parser_rule(ctx, "C10.2")

    # ---- C10.3 / C10.5 version gate
    version_gate(ctx)

    # ---- C10.4 never hangs
    full = inline.inlined(facts, PM.cc_next.id, stop=lambda d: facts.fns[d].rec.get("local") and (not PM.same_file(d) or "{closure#" in d))
    n = shared.own_deadlock_sites(ctx, "C10.4", fns=[full])
    ctx.floor("C10.4 turn-waiting call sites", n, 3)

    # ---- C10.7 the writer abandoned on new_request's error path must not release its successor early
    # (decided on the evaluated writer chain, the same evaluation C01.3 uses: whatever the fields are called and however the wait is spelt)
    import turn_rules as T, engine
    c2 = engine.Ctx("C10", "quick", facts, 0)
    T.rule_writer_chain(c2, "x-wait", "C10.7", "x-chain")
    n7 = 0
    for o in c2.obs:
        if o.rule == "C10.7" and ("send-after-own-turn" in o.key or "used-writer" in o.key) or (o.rule == "x-chain" and o.key.endswith("|evaluates") and not o.ok):
            n7 += 1
            ctx.obs.append(o)
    ctx.floor("C10.7 destructor obligations taken from the writer chain", n7, 2)
    ctx.paths += c2.paths

    # ---- C10.8 only ASCII heads reach the application: every line the head reader works on has been checked to be ASCII (a request
    # target with other bytes is otherwise delivered: the target is copied without any check of its own)
    ascii_rule(ctx, "C10.8")

    # ---- C10.6 Expect handling in new_request
    expect_rule(ctx, "C10.6")

    # ---- C10.9 a malformed version token never reaches the application: every token the version parser accepts is literally `HTTP/x.y`
    # for the version it yields (the parser's table, C02.2, taken over: `HTTP/+1.1` or `HTTP/01.1` read as 1.1 is a malformed request delivered)
    import rules_C02, engine as engine_
    c9 = engine_.Ctx("C10", "quick", facts, 0)
    try:
        rules_C02.run(c9)
        n9 = engine_.take_over(ctx, c9.obs, lambda o: o.rule == "C02.2" and o.key.endswith("|literal-digits-agree"), "C10.9")
        ctx.floor("C10.9 obligations taken from the version parser's table", n9, 1)
    except CheckerError as e:
        raise CheckerError("C10.9 (the version parser's table could not be evaluated): %s" % e)
    return {}


def version_gate(ctx):
    """C10.3 / C10.5: the version gate of the parser as a truth table over representative versions"""
    facts = ctx.facts
    PM = PR.pmodel(facts)
    f = PM.nxt
    where = "%s:%d" % (f.file, f.line)
    paths = [p for p in PM.after_read(PR.Ok_(PR.RQ)) if p.end[0] not in PR.DEAD]
    pconds = []
    has_gate = False
    for p in paths:
        cs = []
        for bb, c in p.conds:
            a = PR.atom_of_cond(c)
            if a and a[0][0] == "version":
                cs.append((a[0], a[1]))
                if a[0][1] in ("gt", "ge", "lt", "le"):
                    has_gate = True
        pconds.append((p, cs))
    ctx.ob("C10.3", "%s|version-gate-present" % PM.cc_next.id, "next() compares the request's version against the supported maximum", has_gate, where)
    samples = [(0, 9), (1, 0), (1, 1), (1, 2), (1, 255), (2, 0), (3, 0), (0, 0), (0, 255), (255, 255), (2, 1), (1, 9)]
    bad, bad_flush = [], []
    for v in samples:
        comp = [p for p, cs in pconds if all((PR.CMP[a[1]](a[2], v) if a[3] else PR.CMP[a[1]](v, a[2])) == val for a, val in cs)]
        for p in comp:
            delivered = p.end[0] == "return" and p.ret() == ("some", PR.RQ)
            st = PR.statuses_of(p)
            pr = PR.prints_of(p)
            if v > (1, 1):
                if delivered or not (p.end[0] == "stop" and p.end[2] == "read-again") or len(pr) != 1 or set(st) != {505}:
                    bad.append((v, Q._ret_str(p), sorted(set(map(str, st)))))
                else:
                    evs = [e for e in p.calls()]
                    i = evs.index(pr[0])
                    if pr[0][2] not in shared.flushing_printers(facts) and not any(e[6] == "std::io::Write::flush" or re.search(r"Write>::flush$", e[2]) for e in evs[i + 1:]):
                        bad_flush.append(v)
            else:
                if not delivered or 505 in st:
                    bad.append((v, Q._ret_str(p), sorted(set(map(str, st)))))
        if not comp:
            bad.append((v, "no path", []))
    ctx.ob("C10.3", "%s|version-gate-table" % PM.cc_next.id, "exactly the versions above 1.1 are rejected: not returned to the application, answered with exactly one 505, and the parser goes on reading the connection; "
           "every other version is delivered (truth table over representative versions)", not bad, where, None if not bad else str(bad[:3]))
    ctx.ob("C10.5", "%s|505-flushed" % PM.cc_next.id, "the 505 bytes are flushed before the parser waits for the next request (the connection is kept open, so nothing else would push them out)",
           has_gate and not bad_flush, where, None if not bad_flush else "no Write::flush after the 505 raw_print for versions %s" % bad_flush[:3])



def ascii_rule(ctx, rule):
    facts = ctx.facts
    import absint
    PM = PR.pmodel(facts)
    lr = PM.line_reader()
    where = "%s:%d" % (lr.file, lr.line)
    unchecked = [(g, bb) for g, bb, t in facts.all_calls(lambda t: bool(re.search(r"from_ascii_unchecked$|from_utf8_unchecked$", call_name(t)))) if g.file == PM.file]
    ctx.ob(rule, "no-unchecked-text|%s" % PM.file, "the parser never builds text without checking its bytes", not unchecked, PM.file, None if not unchecked else str([g.loc(bb) for g, bb in unchecked][:3]))
    ok_ty = re.match(r"^std::result::Result<ascii::AsciiString,", lr.local_ty(0)) is not None
    if ok_ty:
        ctx.ob(rule, "%s|line-is-ascii" % lr.id, "the line reader hands out an AsciiString (a type that cannot hold a non-ASCII byte)", True, where)
        return
    f = inline.inlined(facts, lr.id, stop=lambda d: facts.fns[d].rec.get("local") and not PM.same_file(d), extern_ok=Q.std_small)
    bad = []
    n = 0
    for p in absint.explore(f, 0, None, max_paths=3000, max_visits=2):
        if p.end[0] != "return":
            continue
        r = absint.deep(p.state, p.ret())
        if not (r and r[0] == "agg" and r[2] == "Ok"):
            continue
        n += 1
        checked = any(x and x[0] == "call" and re.search(r"AsciiString::from_ascii$|into_ascii_string$|AsciiStr::from_ascii$|as_ascii_str$", x[1]) for x in absint.walk_terms(r))
        for bb, c in p.conds:
            if c and c[0] == "scalar" and c[2] is True and c[1] and c[1][0] == "call" and re.search(r"::is_ascii$", c[1][1]):
                checked = True
        if not checked:
            bad.append(symex.sym_str(r)[:80])
    ctx.ob(rule, "%s|line-is-ascii" % lr.id, "every line the line reader hands out has been checked to consist of ASCII bytes only", n > 0 and not bad, where, None if not bad else str(bad[:2]))


def header_parser_rule(ctx, rule):
    """`impl FromStr for Header`: Ok only on paths on which the separator was found"""
    facts = ctx.facts
    hp = method(facts, T_FROMSTR, HEADER, "from_str")
    same = lambda d: facts.fns[d].rec.get("local") and facts.fns[d].file == hp.file and ("FromStr" not in d or d.startswith(hp.id + "::"))
    g = inline.inlined(facts, hp.id, stop=lambda d: facts.fns[d].rec.get("local") and not same(d), extern_ok=Q.std_small)
    ctx.touch(g)
    ps = [p for p in absint.explore(g, 0, None, max_paths=3000) if p.end[0] == "return"]
    ctx.paths += len(ps)
    oks = [p for p in ps if p.ret()[0] == "agg" and p.ret()[2] == "Ok"]
    bad = []
    n_sep = 0
    def from_colon_lookup(v):
        """does the term contain the payload of a successful (`Some`) lookup whose scrutinee mentions the ':' separator?"""
        for x in absint.walk_terms(v):
            if x and x[0] == "payload" and x[2] == "Some":
                if any(y and y[0] == "const" and (y[1] == 58 or (isinstance(y[1], str) and ":" in y[1]) or (isinstance(y[2], str) and y[2] in ("':'", "b':'"))) for y in absint.walk_terms(x[1])):
                    return True
        return False
    for p in oks:
        h = absint.deep(p.state, p.ret()[3]["0"])
        parts = list(h[3].values()) if h[0] == "agg" and h[1] == HEADER else []
        n_sep += len(parts)
        if len(parts) < 2 or not all(from_colon_lookup(x) for x in parts):
            bad.append([symex.sym_str(x)[:80] for x in parts])
    ctx.ob(rule, "%s|colon-required" % hp.id, "the header parser accepts a line only when it found the colon (a line without one is an error, never a header with a defaulted name or value)",
           bool(oks) and not bad, "%s:%d" % (hp.file, hp.line), None if not bad else "name / value of an accepted header that do not come from a successful split at the colon: %s" % bad[:3])
    ctx.counts["%s separator lookups on accepting paths" % rule] = n_sep


def expect_rule(ctx, rule):
    """unsupported Expect values are rejected while the request is built, before any body byte is read (framing table)"""
    import framing_rules as FRM
    facts = ctx.facts
    FM = FRM.fmodel(facts)
    nr0 = FM.nr0
    where = "%s:%d" % (nr0.file, nr0.line)
    rows = [r for r in FM.rows if r["end"] == "return"]
    seen = any(a[0][0] == "expect100" for r in rows for a in r["atoms"])
    ctx.ob(rule, "%s|expect-literal" % nr0.id, "Expect is compared case-insensitively with `100-continue`", seen, where)
    bad, n = [], 0
    errs = set()
    for r in rows:
        ats = dict((a, v) for a, v in r["atoms"])
        present = any(a[:2] == ("present", "Expect") and v for a, v in r["atoms"])
        if present and ("expect100",) not in ats and r["kind"] == "ok":
            n += 1
            bad.append("a request with an Expect header is accepted without its value having been compared with 100-continue")
        if present and ats.get(("expect100",)) is False:
            n += 1
            if r["kind"] != "err":
                bad.append("accepted: %s" % Q._ret_str(r["path"])[:60])
            elif r["reads"] > 0:
                bad.append("body bytes are read before the expectation is rejected")
            else:
                e = r["err"]
                errs.add(e[2] if e and e[0] == "agg" else "?")
    ctx.ob(rule, "%s|other-value-rejected" % nr0.id, "any Expect value other than 100-continue makes new_request return an error, before any body byte is read", n > 0 and not bad, where, None if not bad else str(bad[:3]))
    # all CL validation errors come first (400 before 417) -- and the expectation error is one dedicated kind
    ctx.ob(rule, "%s|expectation-failed-produced" % nr0.id, "an unsupported Expect yields one dedicated error kind (the one the connection parser answers with 417)", len(errs) == 1 and "?" not in errs, where, str(sorted(errs)))
