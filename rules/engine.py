"""Check harness: fact extraction (memoised by tree hash), obligation bookkeeping, evidence,
known-findings handling, VIOLATION / KNOWN-FINDING output."""
import hashlib, json, os, subprocess, sys, time, shutil, tempfile, traceback

HERE = os.path.dirname(os.path.abspath(__file__))
VERIF = os.path.dirname(HERE)
sys.path.insert(0, HERE)

from core import Facts, CheckerError, find_facts_file  # noqa: E402

REPO = os.environ.get("THV_REPO", "/repo")
DRIVER = os.path.join(VERIF, "driver", "target", "release", "thv-driver")
CACHE = os.path.join(VERIF, ".cache")

CONFIGS = {
    # name -> cargo args
    "lib": ["--lib"],
    "lib-nodefault": ["--lib", "--no-default-features"],
    "all-targets": ["--all-targets"],
}


def tree_hash(repo):
    h = hashlib.sha256()
    files = []
    for root, dirs, fs in os.walk(repo):
        dirs[:] = sorted(d for d in dirs if d not in ("target", ".git"))
        for f in sorted(fs):
            if f.endswith((".rs", ".toml", ".lock")):
                files.append(os.path.join(root, f))
    for p in files:
        h.update(os.path.relpath(p, repo).encode())
        h.update(b"\0")
        with open(p, "rb") as fh:
            h.update(fh.read())
        h.update(b"\0")
    for p in (DRIVER, os.path.join(VERIF, "extract.sh")):
        try:
            with open(p, "rb") as fh:
                h.update(hashlib.sha256(fh.read()).digest())
        except OSError:
            h.update(b"missing")
    return h.hexdigest()[:24]


def ensure_driver():
    if os.path.exists(DRIVER):
        return
    subprocess.run(["cargo", "+nightly", "build", "--release", "--offline"], cwd=os.path.join(VERIF, "driver"),
                   check=True, stdout=subprocess.DEVNULL, stderr=subprocess.DEVNULL,
                   env=dict(os.environ, CARGO_NET_OFFLINE="true"))


def extract(repo, config, out_dir):
    """run the driver over `repo` with the given configuration into out_dir (fresh target dir)"""
    ensure_driver()
    t0 = time.time()
    r = subprocess.run([os.path.join(VERIF, "extract.sh"), repo, out_dir] + CONFIGS[config],
                       stdout=subprocess.PIPE, stderr=subprocess.PIPE, text=True)
    if r.returncode != 0:
        raise CheckerError("fact extraction failed for config %s (does the tree compile?):\n%s" % (config, r.stderr[-3000:]))
    return time.time() - t0


def facts_dir(repo=REPO, config="lib"):
    """memoised extraction keyed by the content of the tree; any edit to /repo changes the key"""
    key = tree_hash(repo)
    d = os.path.join(CACHE, key, config)
    marker = os.path.join(d, "OK")
    if os.path.exists(marker):
        return d, 0.0, key
    tmp = tempfile.mkdtemp(prefix="thv-facts.", dir="/tmp")
    try:
        dt = extract(repo, config, tmp)
        # must have produced the lib fact file
        find_facts_file(tmp, "tiny_http", "main")
        os.makedirs(os.path.dirname(d), exist_ok=True)
        with open(os.path.join(tmp, "OK"), "w") as f:
            f.write("%.2f" % dt)
        if os.path.exists(d):
            shutil.rmtree(d, ignore_errors=True)
        try:
            shutil.move(tmp, d)
        except Exception:
            if not os.path.exists(marker):
                raise
    finally:
        if os.path.exists(tmp):
            shutil.rmtree(tmp, ignore_errors=True)
    prune_cache(keep=key)
    return d, dt, key


def prune_cache(keep, max_entries=int(os.environ.get("THV_CACHE_MAX", "12"))):
    try:
        ents = [(os.path.getmtime(os.path.join(CACHE, e)), e) for e in os.listdir(CACHE) if e != keep]
    except OSError:
        return
    ents.sort()
    while len(ents) > max_entries - 1:
        _, e = ents.pop(0)
        shutil.rmtree(os.path.join(CACHE, e), ignore_errors=True)


_FACTS = {}


def load_facts(repo=REPO, config="lib", crate="tiny_http", kind="main"):
    k = (repo, config, crate, kind)
    if k not in _FACTS:
        d, dt, key = facts_dir(repo, config)
        f = Facts(find_facts_file(d, crate, kind))
        f.extract_s = dt
        f.tree_key = key
        f.config = config
        _FACTS[k] = f
    return _FACTS[k]


# ------------------------------------------------------------------------------------------------

def take_over(ctx, sub_obs, select, new_rule, prefix=""):
    """copy obligations decided on a private context into ctx under another rule id (shared premises between properties).
    select(o) -> bool; returns the number taken"""
    n = 0
    for o in sub_obs:
        if select(o):
            n += 1
            ctx.obs.append(Ob(new_rule + "|" + o.key.split("|", 1)[1], new_rule, prefix + o.text, o.ok, o.where, o.detail, o.nontrivial))
    return n


class Ob:
    __slots__ = ("key", "rule", "text", "ok", "where", "detail", "nontrivial", "known")

    def __init__(self, key, rule, text, ok, where, detail, nontrivial):
        self.key, self.rule, self.text, self.ok, self.where, self.detail, self.nontrivial = key, rule, text, ok, where, detail, nontrivial
        self.known = None

    def as_dict(self):
        d = {"key": self.key, "rule": self.rule, "obligation": self.text,
             "verdict": "holds" if self.ok else ("known-finding" if self.known else "VIOLATED"), "where": self.where}
        if self.detail:
            d["detail"] = self.detail
        return d


class Ctx:
    def __init__(self, prop, tier, facts, seed=0):
        self.prop = prop
        self.tier = tier
        self.facts = facts
        self.seed = seed
        self.obs = []
        self.fns_analysed = set()
        self.call_sites = 0
        self.paths = 0
        self.notes = []
        self.assumptions = []
        self.counts = {}

    # rule bookkeeping
    def ob(self, rule, key, text, ok, where=None, detail=None, nontrivial=True):
        """record one obligation.  key: stable, no line numbers."""
        full = "%s|%s" % (rule, key)
        o = Ob(full, rule, text, bool(ok), where, detail, nontrivial)
        self.obs.append(o)
        return bool(ok)

    def touch(self, f, calls=0, paths=0):
        self.fns_analysed.add(f.id if hasattr(f, "id") else str(f))
        self.call_sites += calls
        self.paths += paths

    def require(self, cond, msg):
        if not cond:
            raise CheckerError(msg)

    def floor(self, name, count, floor):
        self.counts[name] = count
        if count < floor:
            raise CheckerError("rule population below floor: %s = %d < %d (rule went vacuous; update the tables)" % (name, count, floor))

    def note(self, s):
        self.notes.append(s)

    def assume(self, s):
        if s not in self.assumptions:
            self.assumptions.append(s)


def load_known():
    p = os.path.join(VERIF, "known_findings.json")
    if not os.path.exists(p):
        return []
    with open(p) as f:
        return json.load(f).get("findings", [])


def finish(ctx, t0, explanation, trusted, extra_cov=None, replay_only=None):
    """write evidence + report, print verdict lines, return exit code"""
    prop = ctx.prop
    known = [k for k in load_known() if k.get("property") == prop and k.get("status", "open") == "open"]
    known_keys = {k["key"]: k for k in known}
    viol = []
    kf = []
    for o in ctx.obs:
        if not o.ok:
            if o.key in known_keys:
                o.known = known_keys[o.key]
                kf.append(o)
            else:
                viol.append(o)
    # runs against a scratch copy (--repo, used by the mutant self-tests) must not overwrite the
    # evidence / reports of the real tree
    OUT = VERIF if os.path.realpath(REPO) == "/repo" else os.path.join(REPO, ".thv-out")
    os.makedirs(os.path.join(OUT, "evidence"), exist_ok=True)
    os.makedirs(os.path.join(OUT, "reports"), exist_ok=True)
    n = len(ctx.obs)
    distinct = len({o.key for o in ctx.obs if o.nontrivial})
    # samples: violations first, then a spread of obligations
    samples = [o.as_dict() for o in viol[:5]] + [o.as_dict() for o in kf[:3]]
    step = max(1, n // 8)
    samples += [o.as_dict() for o in ctx.obs[::step]][:10]
    cov = {
        "explanation": explanation,
        "obligations": n,
        "discharged": n - len(viol) - len(kf),
        "evaluations": n,
        "distinct_nontrivial": distinct,
        "rule": "one evaluation = one rule instance (obligation) evaluated on the MIR facts of /repo's current tree; "
                "distinct = distinct obligation keys; non-trivial = the rule's anchor construct was found in the facts "
                "(an unbound anchor aborts the check with exit 2 instead of counting)",
        "samples": samples,
        "functions_analysed": len(ctx.fns_analysed),
        "call_sites_analysed": ctx.call_sites,
        "paths_enumerated": ctx.paths,
        "checker_cmd": "./check %s --tier %s" % (prop, ctx.tier),
        "trusted_base": trusted,
        "exhaustive": True,
        "counts": ctx.counts,
        "facts": {"tree_key": getattr(ctx.facts, "tree_key", None), "config": getattr(ctx.facts, "config", None),
                  "bodies": len(ctx.facts.fns), "instances": len(ctx.facts.instances),
                  "extract_s": round(getattr(ctx.facts, "extract_s", 0.0), 2)},
        "known_findings_matched": [o.key for o in kf],
        "notes": ctx.notes,
    }
    if extra_cov:
        cov.update(extra_cov)
    ev = {
        "property_id": prop,
        "tier": ctx.tier,
        "seed": ctx.seed,
        "level": "other",
        "coverage": cov,
        "assumptions": ctx.assumptions,
        "wall_s": round(time.time() - t0, 3),
        "violations": len(viol),
    }
    with open(os.path.join(OUT, "evidence", "%s.json" % prop), "w") as f:
        json.dump(ev, f, indent=1)
    # report (also the replay file)
    rp = os.path.join(OUT, "reports", "%s.txt" % prop)
    with open(rp, "w") as f:
        f.write("# %s  tier=%s  obligations=%d violated=%d known=%d\n" % (prop, ctx.tier, n, len(viol), len(kf)))
        for o in viol:
            f.write("VIOLATED %s\n  rule: %s\n  obligation: %s\n  where: %s\n" % (o.key, o.rule, o.text, o.where))
            if o.detail:
                f.write("  detail: %s\n" % (o.detail if isinstance(o.detail, str) else json.dumps(o.detail)))
        for o in kf:
            f.write("KNOWN %s\n  where: %s\n" % (o.key, o.where))
        f.write("\n# all obligations\n")
        for o in ctx.obs:
            f.write("%s %s  @ %s\n" % ("ok  " if o.ok else "FAIL", o.key, o.where))
    for o in kf:
        print("KNOWN-FINDING: property=%s %s [%s @ %s]" % (prop, o.known.get("what", ""), o.key, o.where))
    for o in viol:
        print("violated: %s @ %s -- %s%s" % (o.key, o.where, o.text, (" :: " + (o.detail if isinstance(o.detail, str) else json.dumps(o.detail))) if o.detail else ""))
    print("%s tier=%s obligations=%d discharged=%d known=%d violated=%d fns=%d wall=%.2fs" % (
        prop, ctx.tier, n, n - len(viol) - len(kf), len(kf), len(viol), len(ctx.fns_analysed), time.time() - t0))
    if viol:
        print("VIOLATION property=%s replay=%s" % (prop, rp))
        return 1
    return 0
