"""C04 — every response is a well-formed, self-delimiting message with exactly the body."""
import re, itertools
from core import *  # noqa
from roles import *  # noqa
import roles, shared, symex, predeval

EXPLANATION = (
    "Decision-table extraction, sibling agreement and must-pass-through on the MIR of raw_print / write_message_header / respond_impl: the body "
    "suppression predicate is evaluated over boundary statuses and compared with {HEAD} + 1xx + 204 + 304; the header-side and body-side matches on "
    "the chosen coding agree (chunked <-> `Transfer-Encoding: chunked` <-> Encoder; identity <-> `Content-Length: <declared length>` <-> plain copy; "
    "upgrade <-> neither), exactly one framing header per arm; an undeclared length with identity is buffered and its length measured before the head "
    "is written; the status line / header / blank-line templates are decoded from the format constants; the head is written before any body byte; the "
    "chunk encoder is finished (dropped) before raw_print returns and respond_impl flushes.")
TRUSTED = ["rustc MIR", "chunked_transfer::Encoder emits well-formed chunks and the last-chunk on drop", "io::copy copies until EOF", "core::fmt template encoding of this toolchain"]


def decode_template(b):
    """core::fmt::Arguments byte template -> list of literal strings and 'ARG' markers"""
    out = []
    i = 0
    while i < len(b):
        n = b[i]
        if n == 0:
            break
        if n >= 0x80:
            out.append("ARG")
            i += 1
            continue
        out.append(b[i + 1:i + 1 + n].decode("latin-1"))
        i += 1 + n
    return out


def fmt_template(f, t):
    """template of a write_fmt call: from Arguments::new(template, args) or Arguments::from_str(lit)"""
    o = f.origin(t["args"][1])
    for x in origin_walk(o):
        if x[0] == "call" and re.search(r"fmt::Arguments::<'\w+>::new(::<|$)", x[1]):
            c = [y for y in origin_walk(x[2][0]) if y[0] == "const" and isinstance(y[1], bytes)]
            if c:
                return decode_template(c[0][1]), x
        if x[0] == "call" and re.search(r"fmt::Arguments::<'\w+>::from_str$", x[1]):
            c = [y for y in origin_walk(x[2][0]) if y[0] == "const" and isinstance(y[1], str)]
            if c:
                return [c[0][1]], x
    return None, None


class Edges(dict):
    def __init__(self, d, default):
        super().__init__(d)
        self.default = default

    def __contains__(self, k):
        return True

    def __getitem__(self, k):
        return dict.get(self, k, self.default)


def run(ctx):
    facts = ctx.facts
    roles.bind(facts)
    import response_rules as RSP, request_rules as RR, absint
    import queue_rules as Q
    M = RSP.resp_model(facts)
    f = M.f
    raw_print = M.rp
    wmh = M.head_writer
    ctx.touch(f)
    where = "%s:%d" % (raw_print.file, raw_print.line)

    STAT = [99, 100, 199, 200, 203, 204, 205, 303, 304, 305, 500]
    bad1, bad2, bad3, bad5, bad_order = [], [], [], [], []
    rows = 0
    for status, dlen, dns, te, up in itertools.product(STAT, [None, 0, 7], [False, True], ["Identity", "Chunked"], [False, True]):
        ps = M.run(status, dlen, dns, te, up)
        rows += 1
        ctx.paths += len(ps)
        if not ps:
            bad1.append((status, dlen, dns, te, up, "no path"))
            continue
        suppressed = dns or (100 <= status <= 199) or status in (204, 304)
        coding = None if up else te
        if not suppressed and coding == "Identity" and dlen is None and not any(M.summary(p)["copies"] for p in ps):
            bad1.append((status, dlen, dns, te, up, "body not sent"))
        for p in ps:
            S = M.summary(p)
            if not S["ok"]:
                continue       # an I/O error return
            names = [n for i, n, v in S["headers"]]
            # ---- C04.1 suppression
            if suppressed and (S["copies"] or S["encoders"]):
                bad1.append((status, dlen, dns, te, up, "body bytes or chunk framing although the body is suppressed"))
            if not suppressed:
                # (a buffered body of unknown length may turn out to be empty: then there is nothing to copy)
                want_copy = (coding == "Chunked") or (coding == "Identity" and dlen is not None and dlen >= 1)
                if want_copy and not S["copies"]:
                    bad1.append((status, dlen, dns, te, up, "body not sent"))
                if coding is None and S["copies"]:
                    bad1.append((status, dlen, dns, te, up, "body sent without a framing"))
            # ---- C04.2 framing header agrees with the body transfer
            has_te = b"Transfer-Encoding" in names
            has_cl = b"Content-Length" in names
            if coding == "Chunked":
                if not has_te or has_cl:
                    bad2.append((status, dlen, dns, te, up, "framing headers %s" % names))
                if not suppressed and len(S["encoders"]) != 1:
                    bad2.append((status, dlen, dns, te, up, "%d chunk encoders" % len(S["encoders"])))
                if not suppressed and S["encoders"] and not any(absint.contains(a, S["encoders"][0][1]) or absint.mentions_call(a, S["encoders"][0][1]) for c in S["copies"] for a in c[1]):
                    bad2.append((status, dlen, dns, te, up, "the body is not copied into the chunk encoder"))
            elif coding == "Identity":
                if has_te or not has_cl:
                    bad2.append((status, dlen, dns, te, up, "framing headers %s" % names))
                if S["encoders"]:
                    bad2.append((status, dlen, dns, te, up, "identity coding with a chunk encoder"))
            else:
                if has_te or has_cl:
                    bad2.append((status, dlen, dns, te, up, "upgrade response with framing headers %s" % names))
            # ---- C04.3 undeclared length + identity: buffer, then measure
            if coding == "Identity" and dlen is None:
                if not S["buffered"]:
                    bad3.append((status, dlen, dns, te, up, "length unknown and not buffered"))
                else:
                    cl = [v for i, n, v in S["headers"] if n == b"Content-Length"]
                    buf = S.get("buffer_args", [None, None])[1]
                    lens = [x for x in absint.walk_terms(cl[0]) if x and x[0] == "call" and re.search(r"Vec::<T(, A)?>::len$", x[1])] if cl else []
                    if not lens:
                        bad3.append((status, dlen, dns, te, up, "the announced length is not the length of the buffered body"))
                    if S["head"] is not None and not any(True for e in p.events[:S["head"]] if e[1] == "call" and (e[6] or "") == "std::io::Read::read_to_end"):
                        bad3.append((status, dlen, dns, te, up, "buffered after the head was written"))
            elif S["buffered"] and dlen is not None:
                bad3.append((status, dlen, dns, te, up, "a body of declared length is buffered"))
            # ---- head before body; one head
            if S["head"] is None:
                bad_order.append((status, dlen, dns, te, up, "no head written"))
            elif any(i < S["head"] for i, a in S["copies"]) or any(i < S["head"] for i, v in S["encoders"]):
                bad_order.append((status, dlen, dns, te, up, "body bytes before the head"))
            elif any(i > S["head"] for i, n, v in S["headers"]):
                bad_order.append((status, dlen, dns, te, up, "a header added after the head was written"))
            # ---- C04.5 encoder finished
            if S["encoders"] and not any(d > S["encoders"][0][0] for d in S["enc_drops"]):
                bad5.append((status, dlen, dns, te, up, "chunk encoder not finished before raw_print returns"))
    ctx.counts["C04 grid rows"] = rows
    ctx.ob("C04.1", "%s|suppression-table" % raw_print.id, "body bytes and chunk framing are produced exactly when the body is not suppressed; it is suppressed exactly for: the caller's request (HEAD), status 100..=199, 204, 304",
           not bad1, where, None if not bad1 else str(bad1[:4]))
    for te in ("Chunked", "Identity", None):
        bb_ = [x for x in bad2 if (None if x[4] else x[3]) == te]
        ctx.ob("C04.2", "%s|framing|%s" % (raw_print.id, te), "coding %s: framing header and body transfer agree on every path (%s)" % (
            te, {"Chunked": "`Transfer-Encoding: chunked` + chunk encoder", "Identity": "`Content-Length: <len>` + plain copy", None: "upgrade: no framing header, no body"}[te]),
            not bb_, where, None if not bb_ else str(bb_[:4]))
    ctx.ob("C04.3", "%s|length-of-buffered-body" % raw_print.id, "an undeclared-length body sent with identity coding is read to its end before the head is written, and the Content-Length announced is the length of that buffer",
           not bad3, where, None if not bad3 else str(bad3[:4]))
    ctx.ob("C04.4", "%s|head-before-body" % raw_print.id, "the head is written exactly once, after every header was added and before any body byte", not bad_order, where, None if not bad_order else str(bad_order[:4]))
    ctx.ob("C04.5", "%s|encoder-finished" % raw_print.id, "the chunk encoder is dropped (writing the last-chunk) before raw_print returns, on every path", not bad5, where, None if not bad5 else str(bad5[:4]))
    # Content-Length value: the declared length
    ps = M.run(200, 7, False, "Identity", False)
    okv = False
    for p in ps:
        S = M.summary(p)
        for i, n, v in S["headers"]:
            if n == b"Content-Length" and v is not None:
                okv = any(x and x[0] == "const" and x[1] == 7 for x in absint.walk_terms(v))
    ctx.ob("C04.2", "%s|content-length-is-declared-length" % raw_print.id, "the Content-Length announced for a body of declared length is that length", okv, where)
    # the head carries this response's status and header list
    okh = False
    for p in ps:
        S = M.summary(p)
        if S.get("head_args"):
            txt = [absint.deep(p.state, a) for a in S["head_args"]]
            # the status itself, or the part of the response that holds it (a sub-struct passed whole)
            prefixes = [("init", (1,) + M.status_key[:k]) for k in range(1, len(M.status_key) + 1)]
            okh = any(any(x and x[0] == "const" and x[1] == 200 for x in absint.walk_terms(a)) or any(absint.contains(a, q) for q in prefixes) for a in txt)
    ctx.ob("C04.4", "%s|head-uses-own-status-and-headers" % raw_print.id, "the head carries this response's status", okh, where)

    # respond passes `method == Head` as do_not_send_body
    RM = RR.rmodel(facts)
    respond = RM.methods["respond"]
    METHF = shared.find_slot_paths(facts, REQ, "^" + re.escape(METHOD) + "$")
    okhd = False
    detail = None
    if len(METHF) == 1:
        res = {}
        for meth in ("Head", "Get"):
            fr, ps2 = RM.run(respond, extra={(2,): RR.RESPONSE, RM.key(RM.self_base(respond), METHF[0]): ("agg", METHOD, meth, {})},
                             on_call=lambda bb, t, args, st: method_eq(bb, t, args, st))
            vals = set()
            for p in ps2:
                for i, e in RM.final_prints(p):
                    a = shared.print_call_args(facts, p.state, e).get("suppress")
                    vals.add(absint.const_of(a) if a is not None else None)
            res[meth] = vals
        okhd = res.get("Head") == {True} and res.get("Get") == {False}
        detail = str(res)
    ctx.ob("C04.1", "%s|head-suppresses" % respond.id, "answering a HEAD request suppresses the body (and only that)", okhd, "%s:%d" % (respond.file, respond.line), detail)

    # ---- C04.6 the framing headers on the wire are the library's own: an application-supplied Content-Length / Transfer-Encoding (in any letter
    # case) never reaches the header list, so a message cannot carry two contradicting framings (decided by C19's table of add_header)
    import rules_C19, engine
    c2 = engine.Ctx("C04", "quick", facts, 0)
    rules_C19.run(c2)
    n6 = engine.take_over(ctx, c2.obs, lambda o: o.rule == "C19.1" and o.key.split("|")[-1] in ("table", "atoms", "case-insensitive"), "C04.6")
    ctx.floor("C04.6 obligations on application-supplied framing headers", n6, 3)

    # ---- C04.7 what may be framed how: an HTTP/1.0 client is never sent a chunked body, 1xx/204 never a transfer coding (the chooser's
    # table, C05.1, taken over: a body framed in a way the client cannot read is not "self-delimiting")
    import rules_C05
    c5 = engine.Ctx("C04", "quick", facts, 0)
    try:
        rules_C05.run(c5)
        n7 = engine.take_over(ctx, c5.obs, lambda o: (o.rule == "C05.1" and o.key.split("|")[-1] in ("table", "answer-applied")) or (o.rule == "C05.3" and o.key.endswith("|passes-request-version")), "C04.7")
        ctx.floor("C04.7 obligations taken from the coding chooser", n7, 2)
    except CheckerError as e:
        raise CheckerError("C04.7 (the coding chooser could not be evaluated): %s" % e)
    # ---- C04.4 head templates; head before body
    # (the head writer with the helpers of its file spliced in: the status line and the header lines may have writers of their own)
    import inline
    g = inline.inlined(facts, wmh.id, stop=lambda d: facts.fns[d].rec.get("local") and facts.fns[d].file != wmh.file, extern_ok=Q.std_small)
    ctx.touch(g)
    fmts = [(bb, t) for bb, t in g.calls() if t.get("callee") == "std::io::Write::write_fmt"]
    tpls = []
    for bb, t in fmts:
        tpl, x = fmt_template(g, t)
        tpls.append((bb, tpl, x))
    status = [x for x in tpls if x[1] and "HTTP/" in x[1]]
    ok = len(status) == 1 and status[0][1] == ["HTTP/", "ARG", ".", "ARG", " ", "ARG", " ", "ARG", "\r\n"]
    ctx.ob("C04.4", "%s|status-line-template" % wmh.id, "the status line is `HTTP/<major>.<minor> <code> <reason>CRLF`", ok, g.loc(status[0][0]) if status else g.file, str(status[0][1]) if status else None)
    if status:
        # argument order: version.0, version.1, status.0, reason phrase
        x = status[0][2]
        arr = x[2][1]
        elems = [y for y in origin_walk(arr) if y[0] == "call" and re.search(r"Argument::<'\w+>::new_display", y[1])]
        # the parameters by type: the version, and whatever carries the status code (the code itself or a struct of the crate holding it)
        ver_args = {"arg%d" % i for i in range(1, g.argc + 1) if HV in g.locals[i]["ty"]}
        st_args = {}
        for i in range(1, g.argc + 1):
            ty = g.locals[i]["ty"].lstrip("&").replace("mut ", "")
            if ty == STATUS:
                st_args["arg%d" % i] = None
            elif ty in facts.adts and facts.adts[ty]["kind"] == "Struct":
                fl = [x["name"] for x in facts.adts[ty]["variants"][0]["fields"] if x["ty"] == STATUS]
                if len(fl) == 1:
                    st_args["arg%d" % i] = fl[0]
        def what(o):
            s = origin_str(o)
            if "default_reason_phrase" in s:
                return "reason" if any(a in s for a in st_args) else "reason-of-something-else"
            for a in ver_args:
                if a + ".0" in s or (a in s and s.rstrip(")*").endswith(".0")):
                    return "ver.0"
                if a + ".1" in s or (a in s and s.rstrip(")*").endswith(".1")):
                    return "ver.1"
            for a, fld in st_args.items():
                if a in s and (fld is None or fld in origin_fields(o)) and "0" in origin_fields(o):
                    return "status"
            return s
        descr = [what(e[2][0]) for e in elems]
        ok = sorted(descr) == ["reason", "status", "ver.0", "ver.1"]
        # order inside the array aggregate
        aggs = [y for y in origin_walk(arr) if y[0] == "agg" and y[1] == "array"]
        if aggs:
            order = [what(e) for e in aggs[0][2]]
            order = [x if x in ("ver.0", "ver.1", "status", "reason") else "?" for x in order]
            ok = order == ["ver.0", "ver.1", "status", "reason"]
            descr = order
        ctx.ob("C04.4", "%s|status-line-arguments" % wmh.id, "filled with the version's two numbers, the numeric status and its reason phrase, in that order", ok, g.loc(status[0][0]), str(descr))
    # ---- the head as a byte stream: on every abstract path of the head writer that returns success, what was written, piece by piece
    # (a literal of a `write!` template, a constant byte string handed to write / write_all, or something computed = ARG), is the status
    # line, any number of `ARG: ARG CRLF` lines and the blank line -- however the pieces are divided over write calls
    def piece_of(v):
        x = v
        for _ in range(8):
            if isinstance(x, tuple) and x and x[0] in ("ref*", "deref", "constref") and len(x) > 1 and isinstance(x[1], tuple):
                x = x[1]
            elif isinstance(x, tuple) and x and x[0] == "cast" and isinstance(x[-1], tuple):
                x = x[-1]
            else:
                break
        c = absint.const_of(x)
        if isinstance(c, bytes):
            return c.decode("latin-1")
        if isinstance(c, str):
            return c
        return None
    ARG = "\x00"
    n_ok, bad_stream = 0, []
    for p in absint.explore(g, 0, None, max_visits=3, max_paths=6000, deep_events=True):
        if p.end[0] != "return":
            continue
        r = p.ret()
        if r[0] == "agg" and r[2] == "Err":
            continue
        # (a path that returns what an earlier write answered, after that write was seen to fail, is an error path)
        hc = absint.head_call(r)
        if hc is not None and any(c and c[0] == "variant" and c[2] in ("Err", "Break") and absint.mentions_call(c[3], hc) for bb, c in p.conds):
            continue
        n_ok += 1
        stream = ""
        for e in p.calls():
            if not ((e[6] or "").startswith("std::io::Write::write") or re.search(r"Write>::write(_all|_fmt)?$", e[2])):
                continue
            if (e[6] or "").endswith("write_fmt") or e[2].endswith("write_fmt"):
                tpl, _x = fmt_template(g, g.term(e[0]))
                if tpl is None:
                    stream += ARG
                else:
                    stream += "".join(ARG if t_ == "ARG" else t_ for t_ in tpl)
            else:
                a = (e[8] or e[3])
                lit = piece_of(a[1]) if len(a) > 1 else None
                stream += ARG if lit is None else lit
        stream = re.sub("\x00+", ARG, stream)
        if not re.match("^HTTP/\x00\\.\x00 \x00 \x00\r\n(\x00: \x00\r\n)*\r\n$", stream):
            bad_stream.append(stream.replace(ARG, "<ARG>").replace("\r\n", "<CRLF>"))
    ctx.ob("C04.4", "%s|separators" % wmh.id, "headers are separated by `: ` and ended by CRLF, and the head ends with an empty line", n_ok > 0 and not bad_stream, g.file, None if not bad_stream else str(sorted(set(bad_stream))[:3]))
    ctx.ob("C04.4", "%s|blank-line-always" % wmh.id, "every successfully written head ends with the blank line", n_ok > 0 and not [b_ for b_ in bad_stream if not b_.endswith("<CRLF><CRLF>")], g.file,
           None if not bad_stream else str(sorted(set(bad_stream))[:3]))
    return {}


def method_eq(bb, t, args, st):
    """model of `<Method as PartialEq>::eq` on two known unit variants"""
    n = call_name(t)
    if re.search(r"common::Method as std::cmp::PartialEq>::(eq|ne)$", n) and len(args) == 2:
        def val(a):
            if a[0] == "ref":
                return st.read_key(a[1])
            if a[0] == "constref":
                return a[1]
            return a
        a, b = val(args[0]), val(args[1])
        if a[0] == "agg" and b[0] == "agg" and a[1] == b[1] == METHOD and not a[3] and not b[3]:
            r = (a[2] == b[2]) != n.endswith("::ne")
            return ("const", r, str(r).lower(), None)
    return None
