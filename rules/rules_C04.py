"""C04 — every response is a well-formed, self-delimiting message with exactly the body."""
import re, itertools
from core import *  # noqa
from roles import *  # noqa
import roles, shared, symex, predeval
from rules_C01 import find_respond_impl

EXPLANATION = (
    "Decision-table extraction, sibling agreement and must-pass-through on the MIR of raw_print / write_message_header / respond_impl: the body "
    "suppression predicate is evaluated over boundary statuses and compared with {HEAD} + 1xx + 204 + 304; the header-side and body-side matches on "
    "the chosen coding agree (chunked <-> `Transfer-Encoding: chunked` <-> Encoder; identity <-> `Content-Length: <declared length>` <-> plain copy; "
    "upgrade <-> neither), exactly one framing header per arm; an undeclared length with identity is buffered and its length measured before the head "
    "is written; the status line / header / blank-line templates are decoded from the format constants; the head is written before any body byte; the "
    "chunk encoder is finished (dropped) before raw_print returns and respond_impl flushes.")
TRUSTED = ["rustc MIR", "chunked_transfer::Encoder emits well-formed chunks and the last-chunk on drop", "io::copy copies until EOF", "core::fmt template encoding of this toolchain"]


def decode_template(b):
    """core::fmt::Arguments byte template -> list of literal strings and 'ARG' markers"""
    out = []
    i = 0
    while i < len(b):
        n = b[i]
        if n == 0:
            break
        if n >= 0x80:
            out.append("ARG")
            i += 1
            continue
        out.append(b[i + 1:i + 1 + n].decode("latin-1"))
        i += 1 + n
    return out


def fmt_template(f, t):
    """template of a write_fmt call: from Arguments::new(template, args) or Arguments::from_str(lit)"""
    o = f.origin(t["args"][1])
    for x in origin_walk(o):
        if x[0] == "call" and re.search(r"fmt::Arguments::<'\w+>::new(::<|$)", x[1]):
            c = [y for y in origin_walk(x[2][0]) if y[0] == "const" and isinstance(y[1], bytes)]
            if c:
                return decode_template(c[0][1]), x
        if x[0] == "call" and re.search(r"fmt::Arguments::<'\w+>::from_str$", x[1]):
            c = [y for y in origin_walk(x[2][0]) if y[0] == "const" and isinstance(y[1], str)]
            if c:
                return [c[0][1]], x
    return None, None


class Edges(dict):
    def __init__(self, d, default):
        super().__init__(d)
        self.default = default

    def __contains__(self, k):
        return True

    def __getitem__(self, k):
        return dict.get(self, k, self.default)


def run(ctx):
    facts = ctx.facts
    roles.bind(facts)
    f = raw_print = roles.inherent(facts, RESP, "raw_print")
    wmh = facts.fn("response::write_message_header")
    respond_impl = find_respond_impl(facts)
    ctx.touch(f)

    # ---- C04.1 body suppression
    # the final `do_not_send_body`: a multi-definition bool local; every construct that puts body bytes (or chunk framing)
    # on the wire -- io::copy and the construction of the chunk Encoder, whose Drop writes the last-chunk -- must sit on the
    # not-suppressed edge of a test of that local
    copies = [bb for bb, t in f.calls() if call_matches(t, r"^std::io::copy(::<|$)")]
    encs0 = [bb for bb, t in f.calls() if call_matches(t, r"chunked_transfer::Encoder::<W>::(new|with_chunks_size)$")]
    ctx.require(copies, "C04.1: no io::copy in raw_print")
    dom = f.dominators(False)

    def flag_of_switch(b):
        bs = bool_switch(f, b)
        if not bs:
            return None
        l = op_local(bs[0])
        if l is None:
            return None
        src, neg = l, False
        d = f.single_def(l)
        while d and d[0] == "assign":
            if d[3]["rv"] == "use" and op_local(d[3]["op"]) is not None:
                src = op_local(d[3]["op"])
            elif d[3]["rv"] == "unop" and d[3]["op"] == "Not" and op_local(d[3]["a"]) is not None:
                src = op_local(d[3]["a"]); neg = not neg
            else:
                break
            d = f.single_def(src)
        defs = [x for x in f.defs().get(src, []) if x[0] == "assign"]
        if len(defs) >= 2 and f.local_ty(src) == "bool" and src not in f.flag_locals():
            return src, (bs[1] if neg else bs[2])      # (flag local, edge taken when the body is sent)
        return None

    final = None
    send_edges = {}
    for c in copies:
        for b in sorted(dom[c], key=lambda b: -len(dom[b])):
            r = flag_of_switch(b)
            if r and f.dominates(r[1], c, unwind=False):
                final = r[0] if final is None else final
                send_edges[b] = r[1]
                break
    ctx.ob("C04.1", "%s|suppression-flag" % f.id, "(anchor) raw_print decides with one flag whether body bytes are sent", final is not None, "%s:%d" % (f.file, f.line), nontrivial=False)
    if final is None:
        ctx.ob("C04.1", "%s|body-only-when-not-suppressed" % f.id, "body bytes are copied only on the branch where the suppression flag is false", False, f.loc(copies[0]), "no dominating test of a suppression flag")
        return {}
    all_tests = {b: flag_of_switch(b) for b in sorted(f.live_blocks()) if flag_of_switch(b) and flag_of_switch(b)[0] == final}
    for i, site in enumerate(sorted(copies + encs0)):
        ok = any(f.dominates(r[1], site, unwind=False) for r in all_tests.values())
        what = "io::copy" if site in copies else "chunk encoder"
        ctx.ob("C04.1", "%s|body-only-when-not-suppressed|%s|%d" % (f.id, what, i),
               "body bytes and chunk framing (the encoder writes a last-chunk when dropped) are produced only on the branch where the suppression flag is false",
               ok, f.loc(site), None if ok else "%s is reachable although the body is suppressed (HEAD, 1xx, 204, 304)" % what)
    b, r0 = sorted(all_tests.items())[0]
    bs = bool_switch(f, b)
    send_edge = r0[1]
    neg = send_edge == bs[1]
    # walk from the first block that decides the flag to its first use
    def_blocks = {x[1] for x in f.defs().get(final, []) if x[0] == "assign"}
    start = min(set.intersection(*[dom[d] for d in def_blocks]), key=lambda x: -len(dom[x]))
    # innermost common dominator that is a branch
    cands = [x for x in set.intersection(*[dom[d] for d in def_blocks]) if f.term(x)["t"] == "switch"]
    start = max(cands, key=lambda x: len(dom[x]))
    use_blocks = {u[1] for u in f.uses().get(final, [])}
    bad = []
    rows = 0
    for dns, st in itertools.product([False, True], [0, 99, 100, 101, 150, 199, 200, 201, 203, 204, 205, 206, 303, 304, 305, 404, 500, 65535]):
        env = {("arg", 5): dns, ("arg", 1, "status_code", "0"): st}
        asg = {}
        def atom_of(bb):
            t = f.term(bb)
            if t["t"] != "switch":
                return None
            o = f.origin(t["discr"])
            try:
                v = predeval.ev(f, o, env)
            except predeval.Unknown as e:
                raise CheckerError("C04.1: cannot evaluate guard at %s: %s (%s)" % (f.loc(bb), e, origin_str(o)))
            asg["g%d" % bb] = v
            if t["dty"] == "bool":
                bs2 = bool_switch(f, bb)
                return ("g%d" % bb, {True: bs2[1], False: bs2[2]})
            return ("g%d" % bb, Edges({v2: b2 for v2, b2 in t["targets"]}, t["otherwise"]))
        val = []
        def on_block(bb):
            for s in f.stmts(bb):
                if s["s"] == "assign" and s["lhs"] == {"l": final, "p": []}:
                    r = s["rhs"]
                    if r["rv"] == "use":
                        c = op_const(r["op"])
                        val.append(c if c is not None else predeval.ev(f, f.origin(r["op"]), env))
        stop = {x for d in def_blocks for x in f.succs(d, False)} - def_blocks
        end, visited = shared.walk_decision(f, start, atom_of, asg, stop, on_block)
        rows += 1
        ctx.paths += 1
        got = val[-1] if val else None
        want = dns or (100 <= st <= 199) or st in (204, 304)
        if got != want:
            bad.append((dns, st, got, want))
    ctx.counts["C04.1 rows"] = rows
    ctx.ob("C04.1", "%s|suppression-table" % f.id, "the body is suppressed exactly for: the caller's request (HEAD), status 100..=199, 204, 304", not bad, f.loc(start), None if not bad else str(bad[:5]))
    # respond_impl passes `method == Head`
    g = respond_impl
    rp = [(bb, t) for bb, t in g.calls() if call_matches(t, r"raw_print$")]
    o = g.origin(rp[0][1]["args"][4])
    ok = o[0] == "call" and re.search(r"PartialEq>::eq$", o[1]) is not None and "method" in origin_fields(o) and any(
        (c and c[0] == "promoted" and shared.sym_const(c[1]) == ("variant", METHOD, "Head")) for c in [shared.const_of_origin(g, a) for a in o[2]])
    ctx.ob("C04.1", "%s|head-suppresses" % g.id, "answering a HEAD request suppresses the body (do_not_send_body = method == Head)", ok, g.loc(rp[0][0]), origin_str(o))

    # ---- C04.2 header arm <-> body arm agreement
    te_local = None
    wm = f.call_blocks(lambda t: call_is(t, wmh.id))
    ctx.require(len(wm) == 1, "C04.2: write_message_header call")
    def te_switches():
        out = []
        for bb in sorted(f.live_blocks()):
            if f.blocks[bb]["cleanup"]:
                continue
            sw = switch_on_discr(f, bb)
            if sw and sw[0].get("ty", "").startswith("std::option::Option<response::TransferEncoding>") and not sw[0]["pl"]["p"]:
                out.append((bb, sw))
        return out
    tes = te_switches()
    hdr_sw = [x for x in tes if wm[0] in f.reach([x[0]], unwind=False) and f.dominates(x[0], wm[0], unwind=False)]
    body_sws = [x for x in tes if f.dominates(wm[0], x[0], unwind=False)]
    ctx.ob("C04.2", "%s|two-matches" % f.id, "(anchor) the chosen coding is matched once for the framing header and once for the body", len(hdr_sw) >= 1 and len(body_sws) >= 1, "%s:%d" % (f.file, f.line), nontrivial=False)
    if hdr_sw and body_sws:
        hb = max(hdr_sw, key=lambda x: len(dom[x[0]]))
        bbody = min(body_sws, key=lambda x: len(dom[x[0]]))
        te_l = hb[1][0]["pl"]["l"]
        def walk_te(start_bb, stop, te):
            env = {}
            def atom_of(bb):
                sw = switch_on_discr(f, bb)
                if sw and sw[0]["pl"]["l"] in (te_l, bbody[1][0]["pl"]["l"]):
                    rv, m, otherwise, rest = sw
                    if not rv["pl"]["p"]:
                        v = "None" if te is None else "Some"
                    else:
                        v = te
                    mm = dict(m)
                    for r in rest:
                        mm[r] = otherwise
                    return ("te", {True: mm[v]})
                bs2 = bool_switch(f, bb)
                if sw and sw[0].get("adt") == "std::ops::ControlFlow":
                    rv, m, otherwise, rest = sw
                    return ("cf", {True: m.get("Continue", otherwise)})
                if bs2 and op_local(bs2[0]) not in f.flag_locals():
                    o = f.origin(bs2[0])
                    # data_length >= 1 / suppression flag: take the "send" side
                    if bb == b:
                        return ("send", {True: send_edge})
                    if o[0] == "call" and o[1].endswith("is_some") and f.term(bs2[2])["t"] == "call" and call_matches(f.term(bs2[2]), r"core::panicking::"):
                        return ("is_some", {True: bs2[1]})     # assert!(x.is_some()): the failing side is a panic, not a behaviour
                return None
            asg = collections.defaultdict(lambda: True)
            paths = shared.walk_paths(f, start_bb, atom_of, asg, stop)
            results = []
            for end, visited in paths:
                if end is None:
                    continue
                results.append([(bb, f.term(bb)) for bb in visited if f.term(bb)["t"] == "call"])
            return results
        rowsB = {}
        for te in (None, "Identity", "Chunked"):
            hcs = walk_te(hb[0], {wm[0]}, te)
            bcs = walk_te(bbody[0], set(f.returns()), te)
            ctx.paths += len(hcs) + len(bcs)
            ok = bool(hcs) and bool(bcs)
            shown = None
            for hc in hcs:
                pushes = []
                for bb2, t in hc:
                    if call_matches(t, r"Vec::<T(, A)?>::push$") and "headers" in arg_origin_fields(f, t):
                        o = f.origin(t["args"][1])
                        fb = [x for x in origin_calls(o) if x[1].endswith("common::Header::from_bytes")]
                        names = []
                        if fb:
                            for a in fb[0][2]:
                                cs = [x[1] for x in origin_walk(a) if x[0] == "const" and isinstance(x[1], bytes)]
                                names.append(cs[0] if len(cs) == 1 else None)
                        pushes.append((names, o))
                shown = [p[0] for p in pushes]
                if te == "Chunked":
                    ok = ok and [p[0] for p in pushes] == [[b"Transfer-Encoding", b"chunked"]]
                elif te == "Identity":
                    okh = len(pushes) == 1 and pushes[0][0][:1] == [b"Content-Length"]
                    if okh:
                        o = pushes[0][1]
                        tpl_ok = any(x[0] == "const" and isinstance(x[1], bytes) and decode_template(x[1]) == ["ARG"] for x in origin_walk(o))
                        disp = [x for x in origin_calls(o) if re.search(r"Argument::<'\w+>::new_display", x[1])]
                        okh = tpl_ok and len(disp) == 1 and origin_has_call(disp[0][2][0], r"Option::<T>::unwrap$")
                    ok = ok and okh
                else:
                    ok = ok and pushes == []
            for bc in bcs:
                body = sorted({("encoder" if call_matches(t, r"chunked_transfer::Encoder::<W>::new$") else "copy") for bb2, t in bc
                               if call_matches(t, r"chunked_transfer::Encoder::<W>::new$|^std::io::copy")})
                want = {"Chunked": ["copy", "encoder"], "Identity": ["copy"], None: []}[te]
                # (an identity body of length 0 may skip the copy)
                ok = ok and (body == want or (te == "Identity" and body == []))
            if te == "Identity":
                ok = ok and any(sorted({"copy" for bb2, t in bc if call_matches(t, r"^std::io::copy")}) == ["copy"] for bc in bcs)
            ctx.ob("C04.2", "%s|framing|%s" % (f.id, te), "coding %s: framing header and body transfer agree on every path (%s)" % (
                te, {"Chunked": "`Transfer-Encoding: chunked` + chunk encoder", "Identity": "`Content-Length: <len>` + plain copy", None: "no framing header, no body"}[te]),
                ok, f.loc(hb[0]), "framing headers pushed: %s (%d header paths, %d body paths)" % (shown, len(hcs), len(bcs)))
    # upgrade => transfer_encoding = None before the header match
    ups = []
    for bb in sorted(f.live_blocks()):
        sw = switch_on_discr(f, bb)
        if sw and not f.blocks[bb]["cleanup"] and sw[0].get("adt") == "std::option::Option" and f.origin_place(sw[0]["pl"]) == ("arg", 6):
            rv, m, otherwise, rest = sw
            ups.append(m.get("Some", otherwise if "Some" in rest else None))
    ok = False
    if ups and hdr_sw:
        te_l = max(hdr_sw, key=lambda x: len(dom[x[0]]))[1][0]["pl"]["l"]
        sets = [bb for bb, i, s in f.assigns() if s["lhs"] == {"l": te_l, "p": []} and f.origin(s["rhs"]["op"] if s["rhs"]["rv"] == "use" else {"k": "x"})[0:1] == ("agg",)
                and f.origin(s["rhs"]["op"])[4] == "None"] if True else []
        reach = f.reach([ups[0]], blocked=set(sets), unwind=False)
        ok = bool(sets) and max(hdr_sw, key=lambda x: len(dom[x[0]]))[0] not in reach
    ctx.ob("C04.2", "%s|upgrade-clears-coding" % f.id, "a protocol-upgrade response carries neither Content-Length nor Transfer-Encoding (the coding is cleared before the headers are prepared)", ok, "%s:%d" % (f.file, f.line))

    # ---- C04.3 undeclared length + identity: buffer, then measure
    rte = f.call_blocks(lambda t: t.get("callee") == "std::io::Read::read_to_end")
    ctx.ob("C04.3", "%s|buffers-unknown-length" % f.id, "(anchor) an undeclared-length body sent with identity coding is read to its end first", len(rte) == 1, "%s:%d" % (f.file, f.line), nontrivial=False)
    if rte:
        ok1 = f.dominates(rte[0], wm[0], unwind=False) or wm[0] in f.reach([rte[0]], unwind=False)
        lens = [(bb, t) for bb, t in f.calls() if call_matches(t, r"Vec::<T(, A)?>::len$") and bb in f.reach([rte[0]], unwind=False)]
        curs = [(bb, t) for bb, t in f.calls() if call_matches(t, r"std::io::Cursor::<T>::new$") and bb in f.reach([rte[0]], unwind=False)]
        ok2 = False
        if lens and curs:
            buf_of_read = shared.backward_slice_locals(f, [op_local(f.term(rte[0])["args"][1])])
            buf_of_len = shared.backward_slice_locals(f, [op_local(lens[0][1]["args"][0])])
            buf_of_cur = shared.backward_slice_locals(f, [op_local(curs[0][1]["args"][0])])
            common = (buf_of_read & buf_of_len & buf_of_cur)
            ok2 = any("std::vec::Vec<u8>" == f.local_ty(l) for l in common)
        ctx.ob("C04.3", "%s|length-of-buffered-body" % f.id, "the Content-Length announced is the length of the very buffer that is then sent", ok1 and ok2, f.loc(rte[0]))
        ctx.ob("C04.3", "%s|buffer-before-head" % f.id, "buffering happens before the head is written", wm[0] not in f.reach([0], blocked=set(), unwind=False) or f.path([0], [rte[0]], blocked={wm[0]}, unwind=False) is not None, f.loc(rte[0]))

    # ---- C04.4 head templates; head before body
    g = wmh
    ctx.touch(g)
    fmts = [(bb, t) for bb, t in g.calls() if t.get("callee") == "std::io::Write::write_fmt"]
    tpls = []
    for bb, t in fmts:
        tpl, x = fmt_template(g, t)
        tpls.append((bb, tpl, x))
    status = [x for x in tpls if x[1] and "HTTP/" in x[1]]
    ok = len(status) == 1 and status[0][1] == ["HTTP/", "ARG", ".", "ARG", " ", "ARG", " ", "ARG", "\r\n"]
    ctx.ob("C04.4", "%s|status-line-template" % g.id, "the status line is `HTTP/<major>.<minor> <code> <reason>CRLF`", ok, g.loc(status[0][0]) if status else g.file, str(status[0][1]) if status else None)
    if status:
        # argument order: version.0, version.1, status.0, reason phrase
        x = status[0][2]
        arr = x[2][1]
        elems = [y for y in origin_walk(arr) if y[0] == "call" and re.search(r"Argument::<'\w+>::new_display", y[1])]
        descr = []
        for e in elems:
            s = origin_str(e[2][0])
            descr.append("ver.0" if "arg2.0" in s else "ver.1" if "arg2.1" in s else "status" if "arg3.0" in s else "reason" if "default_reason_phrase" in s else s)
        ok = sorted(descr) == ["reason", "status", "ver.0", "ver.1"]
        # order inside the array aggregate
        aggs = [y for y in origin_walk(arr) if y[0] == "agg" and y[1] == "array"]
        if aggs:
            order = []
            for e in aggs[0][2]:
                s = origin_str(e)
                order.append("ver.0" if "arg2.0" in s else "ver.1" if "arg2.1" in s else "status" if "arg3.0" in s else "reason" if "default_reason_phrase" in s else "?")
            ok = order == ["ver.0", "ver.1", "status", "reason"]
            descr = order
        ctx.ob("C04.4", "%s|status-line-arguments" % g.id, "filled with the version's two numbers, the numeric status and its reason phrase, in that order", ok, g.loc(status[0][0]), str(descr))
    lits = [x[1] for x in tpls if x[1] and x[1] != (status[0][1] if status else None)]
    ctx.ob("C04.4", "%s|separators" % g.id, "headers are separated by `: ` and ended by CRLF, and the head ends with an empty line", sorted(map(tuple, lits)) == sorted([(": ",), ("\r\n",), ("\r\n",)]), g.file, str(lits))
    # the terminating CRLF is on every successful path
    finals = [bb for bb, tpl, x in tpls if tpl == ["\r\n"] and not g.in_loop(bb)]
    oks = [bb for bb, i, s in g.assigns() if s["lhs"] == {"l": 0, "p": []} and s["rhs"].get("variant") == "Ok"]
    ok = len(finals) == 1 and oks and all(g.dominates(finals[0], o, unwind=False) for o in oks)
    ctx.ob("C04.4", "%s|blank-line-always" % g.id, "every successfully written head ends with the blank line", ok, g.file)
    ok = all(f.dominates(wm[0], c, unwind=False) for c in copies)
    ctx.ob("C04.4", "%s|head-before-body" % f.id, "the head is written before any body byte", ok, f.loc(wm[0]))
    t = f.term(wm[0])
    o_st, o_hdrs = f.origin(t["args"][2]), f.origin(t["args"][3])
    ctx.ob("C04.4", "%s|head-uses-own-status-and-headers" % f.id, "the head carries this response's status and header list", "status_code" in origin_fields(o_st) and "headers" in origin_fields(o_hdrs), f.loc(wm[0]))

    # ---- C04.5 encoder finished; flush
    encs = [(bb, t) for bb, t in f.calls() if call_matches(t, r"chunked_transfer::Encoder::<W>::new$")]
    for i, (bb, t) in enumerate(encs):
        l = t["dest"]["l"]
        dropbbs = {b2 for b2, t2 in f.drops() if not t2["pl"]["p"] and t2["pl"]["l"] == l}
        reach = f.reach([t["target"]], blocked=dropbbs, unwind=False)
        moved = [b2 for b2, t2 in f.calls() for a in t2["args"] if a["k"] == "move" and op_local(a) == l]
        ok = bool(dropbbs) and not any(r in reach for r in f.returns()) and not moved
        ctx.ob("C04.5", "%s|encoder-finished|%d" % (f.id, i), "the chunk encoder is dropped (writing the last-chunk) before raw_print returns, on every path", ok, f.loc(bb))
    g = respond_impl
    fl = g.call_blocks(lambda t: t.get("callee") == "std::io::Write::flush")
    ctx.ob("C04.5", "%s|flushes" % g.id, "respond_impl flushes the writer after printing (checked in detail under C01.8)", bool(fl), "%s:%d" % (g.file, g.line))
    return {}
