"""Draining destructors of body readers evaluated by abstract path exploration (the destructor with the helpers, closures and the
type's own Read impl of its file spliced in; the inner reader's `read` left opaque so that its result forks into Err / Ok(0) / Ok(n)).
What is decided does not depend on whether the loop counts in a local or in the field, sits in a helper, or drains through the type's
own `read`:
  * stops:    a further read happens only after the previous one returned Ok(n) with n != 0 (an error or end-of-stream ends the loop);
  * owed:     (length-limited reader) read number k asks for at most  SIZE - n1 - .. - n(k-1)  bytes, the loop is entered whenever
              SIZE > 0, and it is left after an Ok(n != 0) only when that difference reached 0."""
import re
from core import *  # noqa
from roles import *  # noqa
import roles, shared, symex, inline, absint
import queue_rules as Q

READS = ("std::io::Read::read",)
DEAD = ("diverge", "resume", "terminate", "unreachable")
SIZE = ("sym", "bytes-still-owed-at-drop")


class DrainModel:
    def __init__(self, facts, adt):
        self.facts, self.adt = facts, adt
        self.d = method(facts, T_DROP, adt, "drop")
        file = self.d.file
        self.f = inline.inlined(facts, self.d.id, stop=shared.helper_stop(facts, file), extern_ok=Q.std_small)
        self._paths = {}

    def paths(self, init=None, max_visits=3):
        k = repr(sorted((init or {}).items()))
        if k not in self._paths:
            st = symex.Sym(self.f)
            for key, v in (init or {}).items():
                st.write_key(key, v)
            def on_call(bb, t, args, s2):
                # a destructor has no caller's buffer: an emptiness test of a slice that is not part of the reader's own state is a test of
                # the scratch buffer it discards through, which has room (a scratch of length 0 could discard nothing at all)
                if re.search(r"slice::<impl \[T\]>::is_empty$", call_name(t)) and args and not from_param(absint.deep(s2, args[0]), 1):
                    return ("const", False, "false", None)
                return None
            self._paths[k] = absint.explore(self.f, 0, st, on_call=on_call, max_visits=max_visits, deep_events=True, max_paths=4000)
        return self._paths[k]


def dmodel(facts, adt):
    c = facts.__dict__.setdefault("_drain_models", {})
    if adt not in c:
        c[adt] = DrainModel(facts, adt)
    return c[adt]


def reads_of(p):
    return [e for e in p.events if e[1] == "call" and e[6] in READS]


def same_call(a, b):
    return a is not None and b is not None and a[0] == "call" and b[0] == "call" and a[1] == b[1] and a[3] == b[3] and (a[5] if len(a) > 5 else 1) == (b[5] if len(b) > 5 else 1)


def outcome(p, res):
    """what the path assumed about the result of one inner read: 'err', 'zero', 'nonzero', or None when the path never looked"""
    ok = None
    cnt = None
    for bb, c in p.conds:
        if not c:
            continue
        if c[0] == "variant" and same_call(absint.head_call(c[3]), res):
            if c[2] == "Err":
                return "err"
            if c[2] == "Ok":
                ok = True
        if c[0] == "scalar":
            v = c[1]
            if v and v[0] != "binop" and same_call(absint.head_call(v), res):
                cnt = "zero" if c[2] == 0 else "nonzero"
            elif v and v[0] == "binop" and v[1] in CMP:
                a, b = v[2], v[3]
                for x, y, flip in ((a, b, False), (b, a, True)):
                    if x and x[0] != "binop" and same_call(absint.head_call(x), res) and absint.const_of(y) == 0 and isinstance(c[2], bool):
                        at0 = CMP[v[1]](0, 0)
                        at1 = CMP[v[1]](0, 1) if flip else CMP[v[1]](1, 0)
                        if at0 != at1:
                            cnt = "zero" if c[2] == at0 else "nonzero"
    if cnt:
        return cnt
    return None


CMP = {"Eq": lambda a, b: a == b, "Ne": lambda a, b: a != b, "Lt": lambda a, b: a < b, "Le": lambda a, b: a <= b, "Gt": lambda a, b: a > b, "Ge": lambda a, b: a >= b}


def linear(x, sign=1, acc=None, depth=0):
    """x as a linear combination {leaf: coefficient}; the count a read returned becomes the leaf ('n', call site, visit)"""
    if acc is None:
        acc = {}
    if not isinstance(x, tuple) or not x or depth > 60:
        acc[repr(x)] = acc.get(repr(x), 0) + sign
        return acc
    if x[0] == "field" and x[2] == "0" and isinstance(x[1], tuple) and x[1] and x[1][0] == "binop" and x[1][1] in ("AddWithOverflow", "SubWithOverflow"):
        linear(x[1][2], sign, acc, depth + 1)
        linear(x[1][3], sign if x[1][1].startswith("Add") else -sign, acc, depth + 1)
        return acc
    if x[0] == "binop" and x[1] in ("Add", "AddUnchecked", "Sub", "SubUnchecked"):
        linear(x[2], sign, acc, depth + 1)
        linear(x[3], sign if x[1].startswith("Add") else -sign, acc, depth + 1)
        return acc
    if x[0] == "call" and re.search(r"::(wrapping|saturating)_sub$", x[1]) and len(x[2]) == 2:
        # saturating / wrapping subtraction of a count that never exceeds what was asked for is the plain difference
        linear(x[2][0], sign, acc, depth + 1)
        linear(x[2][1], -sign, acc, depth + 1)
        return acc
    c = absint.const_of(x)
    if isinstance(c, int) and not isinstance(c, bool):
        acc["#"] = acc.get("#", 0) + sign * c
        return acc
    if x == SIZE:
        k = "S"
    else:
        h = absint.head_call(x)
        k = ("n", h[3], h[5] if len(h) > 5 else 1) if h is not None and h[1] in READS else repr(x)
    acc[k] = acc.get(k, 0) + sign
    return acc


def norm(d):
    return {k: v for k, v in d.items() if v != 0}


def len_bounds(x, depth=0):
    """terms that bound the length of the buffer x from above (its allocation size, the end of a prefix slice)"""
    out = []
    while isinstance(x, tuple) and x and depth < 60:
        depth += 1
        k = x[0]
        if k in ("ref*", "deref", "ref", "downcast", "field", "unwrap", "payload"):
            x = x[1]
        elif k == "refined":
            x = x[3]
        elif k == "call":
            name, args = x[1], x[2]
            if re.search(r"vec::from_elem$", name) and len(args) > 1:
                out.append(args[1])
                break
            if re.search(r"index(_mut)?$", name) and len(args) > 1:
                rng = args[1]
                if rng and rng[0] == "agg" and str(rng[1]).endswith("RangeTo") and rng[3]:
                    out.append(list(rng[3].values())[0])
                x = args[0]
            elif re.search(r"(deref(_mut)?|as_mut_slice|as_slice|as_mut|borrow_mut|by_ref)$", name) and args:
                x = args[0]
            else:
                break
        else:
            break
    return out


def buf_root(x, depth=0):
    """the value a buffer expression is a view of (peeling reborrows, derefs and slicing)"""
    while isinstance(x, tuple) and x and depth < 60:
        depth += 1
        k = x[0]
        if k in ("ref*", "deref", "ref", "downcast", "field", "unwrap", "payload", "constref"):
            x = x[1]
        elif k == "refined":
            x = x[3]
        elif k == "call" and x[2] and re.search(r"(index(_mut)?|deref(_mut)?|as_mut_slice|as_slice|as_mut|borrow_mut|by_ref)$", x[1]):
            x = x[2][0]
        else:
            break
    return x


def cond_bounds(p, buf, upto=None):
    """upper bounds on the length of `buf` that the path has established by comparison: `buf.len() < T` taken, `buf.len() >= T` refused"""
    out = []
    root = repr(buf_root(buf))
    for bb, c in p.conds:
        if not c or c[0] != "scalar" or not c[1] or c[1][0] != "binop" or c[1][1] not in CMP or not isinstance(c[2], bool):
            continue
        op, a, b = c[1][1], c[1][2], c[1][3]
        def is_len_of_buf(x):
            if x and x[0] == "call" and re.search(r"::len$", x[1]) and x[2]:
                return repr(buf_root(x[2][0])) == root
            if x and x[0] == "unop" and x[1] == "PtrMetadata":
                return repr(buf_root(x[2])) == root
            return False
        if is_len_of_buf(a) and ((op in ("Lt", "Le") and c[2]) or (op in ("Ge", "Gt") and not c[2])):
            out.append(b)
        if is_len_of_buf(b) and ((op in ("Gt", "Ge") and c[2]) or (op in ("Le", "Lt") and not c[2])):
            out.append(a)
    return out


def at_most(b, owed):
    if norm(linear(b)) == owed:
        return True
    if b and b[0] == "call" and re.search(r"::min$", b[1]):
        return any(at_most(a, owed) for a in b[2])
    return False


def owed_before(reads, k):
    d = {"S": 1}
    for e in reads[:k]:
        r = e[4]
        d[("n", r[3], r[5] if len(r) > 5 else 1)] = -1
    return d


def stops_rule(ctx, rule, adt, what, emit=("repeats", "stops")):
    """generic: no read after a read that failed or hit end-of-stream"""
    facts = ctx.facts
    M = dmodel(facts, adt)
    ctx.touch(M.f)
    ps = [p for p in M.paths() if p.end[0] not in DEAD]
    ctx.paths += len(ps)
    bad = []
    loops = False
    for p in ps:
        rs = reads_of(p)
        if len(rs) >= 2:
            loops = True
        for a, b in zip(rs, rs[1:]):
            o = outcome(p, a[4])
            if o != "nonzero":
                bad.append("another read after a read %s" % ({"err": "that failed", "zero": "that returned 0", None: "whose result was not examined"}[o]))
    where = "%s:%d" % (M.d.file, M.d.line)
    if "repeats" in emit:
        ctx.ob(rule, "%s|drain-repeats" % M.d.id, "the discard read of %s is repeated until the body is used up" % what, loops, where)
    if "stops" in emit:
        ctx.ob(rule, "%s|drain-stops" % M.d.id, "the discard loop of %s ends at end-of-stream and at the first I/O error (a vanished client cannot keep it spinning)" % what, bool(ps) and not bad, where,
               None if not bad else str(sorted(set(bad))[:3]))
    return loops and not bad


def zero_established(p, target):
    """did the path establish that the quantity `target` (a linear form) is 0?  By a comparison with 0 that came out the way it does at 0
    and not at 1 (`x > 0` false, `x == 0` true, ...), or by a `match` on the quantity itself that took the arm of 0"""
    for bb, c in p.conds:
        if not c or c[0] != "scalar" or not c[1]:
            continue
        if c[1][0] == "binop" and c[1][1] in CMP and isinstance(c[2], bool):
            op, a, b = c[1][1], c[1][2], c[1][3]
            for x, y, flip in ((a, b, False), (b, a, True)):
                if absint.const_of(y) == 0 and norm(linear(x)) == target:
                    at0 = CMP[op](0, 0)
                    at1 = CMP[op](0, 1) if flip else CMP[op](1, 0)
                    if at0 != at1 and c[2] == at0:
                        return True
            # two quantities compared with each other (`delivered >= declared`): the comparison of their difference with 0
            if absint.const_of(a) is None and absint.const_of(b) is None:
                la, lb = linear(a), linear(b)
                diff = norm({k: la.get(k, 0) - lb.get(k, 0) for k in set(la) | set(lb)})          # a - b
                for d_, flip in ((diff, False), ({k: -v for k, v in diff.items()}, True)):
                    if d_ == target:
                        # flip=False: (owed OP 0);  flip=True: (0 OP owed)
                        at0 = CMP[op](0, 0)
                        at1 = CMP[op](0, 1) if flip else CMP[op](1, 0)
                        if at0 != at1 and c[2] == at0:
                            return True
        elif c[2] == 0 and not isinstance(c[2], bool) and norm(linear(c[1])) == target:
            return True
    return False


def owed_rules(ctx, rule, adt, size_key, rules=None):
    """the length-limited reader's drain, with its remaining-size field bound to SIZE"""
    facts = ctx.facts
    M = dmodel(facts, adt)
    where = "%s:%d" % (M.d.file, M.d.line)
    R = rules or {}
    init = size_key if isinstance(size_key, dict) else {size_key: SIZE}
    ps = [p for p in M.paths(init) if p.end[0] not in DEAD]
    ctx.paths += len(ps)
    bad_b, bad_x = [], []
    n_reads = 0
    for p in ps:
        rs = reads_of(p)
        for k, e in enumerate(rs):
            n_reads += 1
            owed = owed_before(rs, k)
            buf = e[8][1] if len(e) > 8 and e[8] and len(e[8]) > 1 else None
            bs = (len_bounds(buf) + cond_bounds(p, buf)) if buf is not None else []
            if not any(at_most(b, owed) for b in bs):
                bad_b.append("read #%d asks for %s bytes while %s are owed" % (k + 1, " / ".join(symex.sym_str(b)[:60] for b in bs) or "an unbounded number of", show(owed)))
        if p.end[0] == "return" and rs:
            o = outcome(p, rs[-1][4])
            if o == "nonzero":
                owed = owed_before(rs, len(rs))
                done = zero_established(p, owed)
                if not done:
                    bad_x.append("leaves after %d read(s) that returned bytes without having established that %s reached 0" % (len(rs), show(owed)))
        elif p.end[0] == "return" and not rs:
            # no read at all: only when SIZE == 0 was established
            zero = zero_established(p, {"S": 1})
            if not zero:
                bad_x.append("returns without reading although bytes may be owed")
    ctx.counts["%s discard reads examined (over all abstract paths)" % rule] = n_reads
    ok_b = n_reads > 0 and not bad_b
    ok_x = bool(ps) and not bad_x
    for r in R.get("bounded", [rule]):
        ctx.ob(r, "%s|discard-bounded" % M.d.id, "every discarding read asks for at most the number of body bytes still owed at that moment (declared remainder minus what the earlier discard reads returned); otherwise the start of the next message is swallowed",
               ok_b, where, None if ok_b else str(sorted(set(bad_b))[:3]))
    for r in R.get("complete", [rule]):
        ctx.ob(r, "%s|discards-all-owed" % M.d.id, "the destructor reads whenever bytes are owed and, while the reads deliver bytes, goes on until exactly the owed number has been discarded",
               ok_x, where, None if ok_x else str(sorted(set(bad_x))[:3]))
    return ok_b, ok_x


def show(d):
    out = []
    for k, v in d.items():
        name = "SIZE" if k == "S" else ("n%s" % (k[2] if isinstance(k, tuple) else "")) if isinstance(k, tuple) else str(k)[:30]
        out.append(("+" if v > 0 else "-") + name)
    return "".join(out).lstrip("+")


# ---- the end-of-body latch ---------------------------------------------------------------------------------------------------------------

def initial_fields(facts, adt):
    """constant fields (bool / field-less enum values) a freshly constructed `adt` starts with: {field: term}; None if constructions disagree"""
    import parser_rules as PRS
    out = {}
    cons = [(g, bb, s) for g, bb, s in facts.constructions(adt) if "::tests::" not in g.id and not g.id.startswith("test")]
    for g, bb, s in cons:
        r = s["rhs"]
        for name, op in zip(r.get("fields") or [], r["ops"]):
            v = PRS.static_value(g, op)
            if v is None:
                continue
            fty = [x["ty"] for x in facts.adt(adt)["variants"][0]["fields"] if x["name"] == name][0]
            term = ("const", v[1], "true" if v[1] else "false", None) if v[0] == "b" else ("agg", fty, v[1], {})
            if name in out and out[name] != term:
                return None
            out[name] = term
    return out if cons else None


def from_param(v, k):
    """does the term refer to (a reborrow of) parameter k?"""
    for x in absint.walk_terms(v):
        if x and x[0] in ("init", "ref", "ref*") and isinstance(x[1], tuple) and x[1] and x[1][0] == k:
            return True
    return v is not None and v[0] in ("init", "ref") and isinstance(v[1], tuple) and v[1][:1] == (k,)


def latch_rule(ctx, rule):
    """A body reader whose destructor discards the unread rest must not be switched off by a read that says nothing about the end of the
    body: `read` into an EMPTY buffer returns 0 anywhere in the body.  Decided by evaluation: start from the state the reader is constructed
    in, perform one `read` with an empty buffer whose inner read returns Ok(0), and run the destructor on the resulting state: it must still read."""
    facts = ctx.facts
    import fused_rules as FU
    n = 0
    for aid, a in sorted(facts.adts.items()):
        if a["kind"] != "Struct" or not a["has_drop"] or facts.trait_method(T_READ, aid, "read") is None or facts.drop_fn(aid) is None:
            continue
        D = dmodel(facts, aid)
        if not any(reads_of(p) for p in D.paths()):
            continue        # the destructor does not read: nothing to switch off
        init = initial_fields(facts, aid)
        rd = method(facts, T_READ, aid, "read")
        where = "%s:%d" % (rd.file, rd.line)
        n += 1
        if init is None:
            ctx.ob(rule, "%s|latch" % aid, "the reader's initial state is definite", False, where)
            continue
        fr = inline.inlined(facts, rd.id, stop=shared.helper_stop(facts, rd.file), extern_ok=Q.std_small)
        fields = [x["name"] for x in a["variants"][0]["fields"]]
        def run_read(empty):
            st = symex.Sym(fr)
            for k, v in init.items():
                st.write_key((1, "*", "." + k), v)
            def on_call(bb, t, args, s2):
                nm = call_name(t)
                if t.get("callee") in FU.READS:
                    return FU.ok_(0)
                if re.search(r"slice::<impl \[T\]>::(is_empty|len)$", nm) and args and from_param(absint.deep(s2, args[0]), 2):
                    if nm.endswith("is_empty"):
                        return ("const", empty, "true" if empty else "false", None)
                    return ("const", 0 if empty else 16, "0_usize" if empty else "16_usize", None)
                return None
            return [p for p in absint.explore(fr, 0, st, on_call=on_call, max_paths=2000) if p.end[0] == "return"]
        def drop_reads(state_of):
            """does the destructor read on every completed path when started in this state?"""
            ps = [p for p in D.paths(state_of) if p.end[0] not in DEAD]
            return bool(ps) and all(reads_of(p) for p in ps)
        base = {(1, "*", "." + k): v for k, v in init.items()}
        ok0 = drop_reads(base)
        if not ok0 and shared.find_slot_paths(facts, aid, r"^usize$"):
            n -= 1
            continue        # whether this destructor reads is decided by a byte counter, not by a latch (see the `owed` rules)
        ctx.ob(rule, "%s|fresh-reader-drains" % aid, "a reader that was never read from discards its body when dropped", ok0, where)
        bad = []
        for p in run_read(True):
            after = dict(base)
            for k in fields:
                v = absint.deep(p.state, p.state.read_key((1, "*", "." + k)))
                if v[0] != "init":
                    after[(1, "*", "." + k)] = v
            if not drop_reads(after):
                bad.append({k[2][1:]: symex.sym_str(v)[:40] for k, v in after.items() if base.get(k) != v})
        ctx.ob(rule, "%s|empty-read-keeps-draining" % aid,
               "a read into an empty buffer (which returns 0 anywhere in the body) does not switch the draining destructor off: the rest of the body would be parsed as the next request",
               ok0 and not bad, where, None if not bad else "after such a read the destructor no longer reads; state changed to %s" % bad[:2])
        # the dual (defect D12): chunked_transfer's Decoder parses chunk framing even when the buffer has no room, and keeps no record of
        # having consumed the last chunk -- its Ok(0) for an empty buffer cannot be told from the end of the body (latching on it is what
        # the obligation above forbids, not latching loses the end).  So a read into an empty buffer must not reach the decoder at all.
        dec = [(bb, t) for bb, t in fr.calls() if t.get("callee") in READS and t.get("self_adt") == "chunked_transfer::Decoder"]
        if dec:
            reach = []
            for p in run_read(True):
                hit = [e for e in p.calls() if e[6] in READS and "<chunked_transfer::Decoder<" in (e[2] or "")]
                if hit:
                    reach.append(fr.loc(hit[0][0]))
            ctx.ob(rule, "%s|empty-read-stays-out-of-the-chunk-decoder" % aid,
                   "a read into an empty buffer does not reach the chunk decoder (it would consume the last chunk without a trace: the next read, or the drop, parses the next request's first line as a chunk header)",
                   not reach, where, None if not reach else "the decoder is read with the caller's empty buffer at %s" % sorted(set(reach))[:2])
    return n
