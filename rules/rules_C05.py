"""C05 — chunked/identity selection is a fixed function of version, status, TE and length."""
import re, itertools
from core import *  # noqa
from roles import *  # noqa
import roles, shared, symex, predeval

EXPLANATION = (
    "Decision-table extraction on MIR: choose_transfer_encoding is walked block by block; each guard expression (version comparison, status "
    "comparisons, TE preference present, body length vs. threshold through the map_or closure) is evaluated over a boundary-complete set of "
    "representative inputs and the outcome is compared with DESIGN A.2, which fixes operators, constants and precedence; HTTPVersion's ordering is "
    "checked to be lexicographic and the tuple impls to delegate to it; the threshold default/override and the arguments raw_print passes are "
    "checked by provenance; the TE preference is sorted descending by q, q<=0 skipped, first supported coding wins, and the accepted coding "
    "literals agree with the enum. Tokenisation of arbitrary TE strings is not decided.")
TRUSTED = ["rustc MIR", "std PartialOrd default methods (le/gt from partial_cmp)", "f32 comparison semantics", "slice::sort_by is a stable sort"]


def run(ctx):
    facts = ctx.facts
    roles.bind(facts)
    f = cte = facts.fn("response::choose_transfer_encoding")
    raw_print = roles.inherent(facts, RESP, "raw_print")
    ctx.touch(f)

    # ---- C05.1 decision table
    # parameters: 1 status_code, 2 request_headers, 3 http_version, 4 entity_length, 5 has_additional_headers, 6 chunked_threshold
    te_sw = None
    for bb in sorted(f.live_blocks()):
        sw = switch_on_discr(f, bb)
        if sw and sw[0].get("adt") == "std::option::Option" and not f.blocks[bb]["cleanup"]:
            o = f.origin_place(sw[0]["pl"])
            if origin_has_call(o, r"Option::<T>::and_then$"):
                te_sw = (bb, sw)
    ctx.require(te_sw is not None, "C05.1: the test of the client's TE preference was not found")
    lookup = []
    for g in facts.find_fns(r"^response::choose_transfer_encoding::\{closure#\d+\}$"):
        for bb, t in g.calls():
            if call_matches(t, r"HeaderField::equiv$"):
                lookup += [c for c in arg_consts(g, t) if isinstance(c, str)]
    ctx.ob("C05.1", "%s|looks-up-TE" % f.id, "the client's preference is read from the `TE` request header", lookup == ["TE"], "%s:%d" % (f.file, f.line), str(lookup))
    thr_values = [0, 1, 5, 32768]
    versions = [(0, 9), (1, 0), (1, 1), (1, 2), (2, 0), (0, 255)]
    statuses = [99, 100, 150, 199, 200, 201, 203, 204, 205, 304, 404, 500, 65535]
    tes = [None, "Identity", "Chunked"]
    bad = []
    rows = 0
    unknown = []
    consts_seen = set()
    for thr in thr_values:
        lengths = [None] + sorted({0, max(thr - 1, 0), thr, thr + 1})
        for ver, st, te, ln in itertools.product(versions, statuses, tes, lengths):
            env = {("arg", 1): (st,), ("arg", 1, "0"): st, ("arg", 3): ver, ("arg", 4): (None if ln is None else ("some", ln)), ("arg", 5): False, ("arg", 6): thr}
            class Asg(dict):
                def __missing__(self, key):
                    raise KeyError(key)
            asg = {}
            def atom_of(bb, env=env, asg=asg):
                if bb == te_sw[0]:
                    rv, m, otherwise, rest = te_sw[1]
                    asg["te"] = te is not None
                    return ("te", {True: m.get("Some", otherwise if "Some" in rest else None), False: m.get("None", otherwise if "None" in rest else None)})
                bs = bool_switch(f, bb)
                if bs and op_local(bs[0]) not in f.flag_locals():
                    o = f.origin(bs[0])
                    try:
                        v = predeval.ev(f, o, env)
                    except predeval.Unknown as e:
                        unknown.append((f.loc(bb), str(e)))
                        raise CheckerError("C05.1: cannot evaluate guard at %s: %s" % (f.loc(bb), e))
                    asg["g%d" % bb] = bool(v)
                    return ("g%d" % bb, {True: bs[1], False: bs[2]})
                return None
            out = []
            def on_block(bb):
                for s in f.stmts(bb):
                    if s["s"] == "assign" and s["lhs"] == {"l": 0, "p": []}:
                        r = s["rhs"]
                        if r["rv"] == "agg" and r.get("adt") == TE:
                            out.append(r["variant"])
                        elif r["rv"] == "use":
                            o = f.origin(r["op"])
                            if any(x[0] == "downcast" and x[2] == "Some" for x in origin_walk(o)) and origin_has_call(o, r"and_then$"):
                                out.append("TE:" + str(te))
                            else:
                                out.append("?")
            end, visited = shared.walk_decision(f, 0, atom_of, asg, set(f.returns()), on_block)
            rows += 1
            ctx.paths += 1
            if ver <= (1, 0):
                want = "Identity"
            elif st < 200 or st == 204:
                want = "Identity"
            elif te is not None:
                want = "TE:" + te
            elif ln is None or ln >= thr:
                want = "Chunked"
            else:
                want = "Identity"
            got = out[-1] if out else None
            if got != want:
                bad.append((ver, st, te, ln, thr, got, want))
    ctx.counts["C05.1 table rows"] = rows
    ctx.ob("C05.1", "%s|table" % f.id,
           "for every representative (version, status, TE preference, body length, threshold) the coding chosen is the one of the property's table: identity for <=1.0, identity for 1xx/204, the client's preferred coding, else chunked iff length unknown or >= threshold",
           not bad, "%s:%d" % (f.file, f.line), None if not bad else "mismatches (version,status,TE,len,thr,got,want): %s" % bad[:4])
    # has_additional_headers is constantly false at the only call site
    sites = facts.callers_of(f.id)
    ctx.floor("C05.1 call sites of choose_transfer_encoding", len(sites), 1)
    for g, bb, t in sites:
        ctx.ob("C05.1", "call|%s" % g.id, "choose_transfer_encoding is called only by raw_print, with has_additional_headers = false", g.id == raw_print.id and op_const(t["args"][4]) is False, g.loc(bb))
        if g.id == raw_print.id:
            o_st, o_hdr, o_ver, o_len, o_thr = (g.origin(t["args"][i]) for i in (0, 1, 2, 3, 5))
            ctx.ob("C05.3", "%s|passes-own-status" % g.id, "the decision is made on the response's own status code", "status_code" in origin_fields(o_st), g.loc(bb), origin_str(o_st))
            ctx.ob("C05.3", "%s|passes-request-headers" % g.id, "... on the request's headers", any(x == ("arg", 4) for x in origin_walk(o_hdr)), g.loc(bb), origin_str(o_hdr))
            ctx.ob("C05.3", "%s|passes-request-version" % g.id, "... on the request's HTTP version", any(x == ("arg", 3) for x in origin_walk(o_ver)), g.loc(bb), origin_str(o_ver))
            ctx.ob("C05.3", "%s|passes-declared-length" % g.id, "... on the response's declared length", "data_length" in origin_fields(o_len), g.loc(bb), origin_str(o_len))
            thr_fn = roles.inherent(facts, RESP, "chunked_threshold")
            ctx.ob("C05.3", "%s|passes-threshold" % g.id, "... and on the response's chunking threshold", o_thr[0] == "call" and o_thr[1] == thr_fn.id, g.loc(bb), origin_str(o_thr))

    # ---- C05.2 ordering of HTTPVersion
    cmpf = facts.fn(facts.trait_method("std::cmp::Ord", HV, "cmp"))
    ctx.touch(cmpf)
    ok = False
    detail = None
    for bb in sorted(cmpf.live_blocks()):
        bs = bool_switch(cmpf, bb)
        if not bs:
            continue
        o = cmpf.origin(bs[0])
        if o[0] == "binop" and o[1] in ("Ne", "Eq"):
            fl = [sorted(origin_fields(o[2])), sorted(origin_fields(o[3]))]
            if fl == [["0"], ["0"]]:
                diff_t, same_t = (bs[1], bs[2]) if o[1] == "Ne" else (bs[2], bs[1])
                def cmp_fields(tgt):
                    res = set()
                    for b2 in sorted(cmpf.reach([tgt], unwind=False)):
                        t2 = cmpf.term(b2)
                        if t2["t"] == "call" and t2.get("name") == "cmp" and t2["dest"] == {"l": 0, "p": []}:
                            a, b = cmpf.origin(t2["args"][0]), cmpf.origin(t2["args"][1])
                            res.add((origin_str(a), origin_str(b)))
                    return res
                d, s_ = cmp_fields(diff_t), cmp_fields(same_t)
                okd = len(d) == 1 and all(a == "&*arg1.0" and b == "&*arg2.0" for a, b in d)
                oks = len(s_ - d) == 1 and all(a == "&*arg1.1" and b == "&*arg2.1" for a, b in s_ - d)
                ok = okd and oks
                detail = "differ->%s same->%s" % (d, s_)
    ctx.ob("C05.2", "%s|lexicographic" % cmpf.id, "versions are ordered by major, then minor (self compared with other, not swapped)", ok, "%s:%d" % (cmpf.file, cmpf.line), detail)
    pc = facts.fn(facts.trait_method("std::cmp::PartialOrd", HV, "partial_cmp"))
    o = pc.origin_place({"l": 0, "p": []})
    ok = o[0] == "agg" and o[4] == "Some" and o[2][0][0] == "call" and o[2][0][1] == cmpf.id and o[2][0][2][0] in (("arg", 1), ("ref", ("deref", ("arg", 1)))) 
    ctx.ob("C05.2", "%s|delegates" % pc.id, "partial_cmp is Some(cmp(self, other))", ok, "%s:%d" % (pc.file, pc.line), origin_str(o))
    for g in facts.find_fns(r"^<common::HTTPVersion as std::cmp::PartialOrd<\(u8, u8\)>>::partial_cmp$"):
        o = g.origin_place({"l": 0, "p": []})
        okd = o[0] == "call" and o[1] == pc.id
        okf = False
        if okd:
            other = o[2][1]
            aggs = [x for x in origin_walk(other) if x[0] == "agg" and x[1] == HV]
            if aggs:
                a = aggs[0]
                s0, s1 = origin_str(a[2][0]), origin_str(a[2][1])
                okf = s0.endswith(".0") and s1.endswith(".1")
        ctx.ob("C05.2", "%s|tuple-delegates" % g.id, "comparison with a (major, minor) tuple builds HTTPVersion(major, minor) in that order and delegates", okd and okf, "%s:%d" % (g.file, g.line), origin_str(o))

    # ---- C05.3 threshold
    thr_fn = roles.inherent(facts, RESP, "chunked_threshold")
    o = thr_fn.origin_place({"l": 0, "p": []})
    ok = o[0] == "call" and o[1].endswith("Option::<T>::unwrap_or") and "chunked_threshold" in origin_fields(o[2][0]) and o[2][1][0] == "const" and o[2][1][1] == 32768
    ctx.ob("C05.3", "%s|default-32768" % thr_fn.id, "the threshold is the configured one, 32768 by default", ok, "%s:%d" % (thr_fn.file, thr_fn.line), origin_str(o))
    wct = roles.inherent(facts, RESP, "with_chunked_threshold")
    ws = [(bb, x) for g, bb, kind, x in facts.field_writes(RESP, "chunked_threshold") if g.id == wct.id and kind == "assign"]
    ok = len(ws) == 1
    if ok:
        o = wct.origin(ws[0][1]["rhs"]["op"])
        ok = o[0] == "agg" and o[4] == "Some" and o[2][0] == ("arg", 2)
    ctx.ob("C05.3", "%s|stores-argument" % wct.id, "with_chunked_threshold stores exactly its argument", ok, "%s:%d" % (wct.file, wct.line))
    for g, bb, kind, x in facts.field_writes(RESP, "chunked_threshold"):
        if kind in ("assign", "calldest", "mutref"):
            ctx.ob("C05.3", "threshold-write|%s" % g.id, "the threshold is changed only by with_chunked_threshold", g.id == wct.id, g.loc(bb))

    import rules_C19
    rules_C19.conv_fields(ctx, facts, "C05.3")

    # ---- C05.4 TE preference
    # bound by role: the closure that calls parse_header_value and sorts, and the comparator it passes to sort_by
    pref = [g for g in facts.find_fns(r"^response::choose_transfer_encoding::\{closure") if g.call_blocks(lambda t: call_matches(t, r"<impl \[T\]>::sort(_unstable)?_by$"))]
    ctx.require(len(pref) == 1, "C05.4: the closure sorting the TE preferences was not found")
    p = pref[0]
    sb0 = [(bb, t) for bb, t in p.calls() if call_matches(t, r"<impl \[T\]>::sort(_unstable)?_by$")]
    so = p.origin(sb0[0][1]["args"][1])
    ctx.require(so[0] == "agg" and so[1] in facts.fns, "C05.4: sort comparator is not a closure")
    sc = facts.fns[so[1]]
    ctx.touch(p); ctx.touch(sc)
    o = sc.origin_place({"l": 0, "p": []})
    pcs = [x for x in origin_calls(o) if re.search(r"(partial_cmp|total_cmp|::cmp)$", x[1])]
    ok = False
    if pcs:
        a, b = pcs[0][2]
        sa, sb = origin_str(a), origin_str(b)
        ok = "arg3" in sa and "arg2" in sb and sa.endswith(".1") and sb.endswith(".1")
    ctx.ob("C05.4", "%s|descending-q" % sc.id, "codings are sorted by descending q (the comparator compares b.q with a.q)", ok, "%s:%d" % (sc.file, sc.line), origin_str(o))
    sb_ = p.call_blocks(lambda t: call_matches(t, r"<impl \[T\]>::sort_by$"))
    ctx.ob("C05.4", "%s|stable-sort" % p.id, "ties keep list order (stable sort_by)", len(sb_) == 1, "%s:%d" % (p.file, p.line))
    skip_ok = False
    for bb in sorted(p.live_blocks()):
        bs = bool_switch(p, bb)
        if not bs:
            continue
        o = p.origin(bs[0])
        if o[0] == "binop" and o[1] == "Le" and o[3][0] == "const" and o[3][1] == ("float", 0.0) and "1" in origin_fields(o[2]):
            fs = set(p.call_blocks(lambda t: call_matches(t, r"TransferEncoding as std::str::FromStr>::from_str$")))
            nx = set(p.call_blocks(lambda t: call_matches(t, r"Iter<.*> as std::iter::Iterator>::next$")))
            r = p.reach([bs[1]], blocked=nx, unwind=False)
            skip_ok = not (r & fs) and not any(x in r for x in p.returns())
    ctx.ob("C05.4", "%s|skip-q-zero" % p.id, "an entry with q <= 0 is skipped", skip_ok, "%s:%d" % (p.file, p.line))
    # first accepted coding is returned
    fs = p.call_blocks(lambda t: call_matches(t, r"TransferEncoding as std::str::FromStr>::from_str$"))
    ok = len(fs) == 1
    if ok:
        rs = shared.result_switch(p, fs[0])
        ok = rs is not None and rs.get("ok") is not None
        if ok:
            outs = shared.eval_from(p, rs["ok"])
            ok = bool(outs) and all(st.read_key((0,))[0] == "some" for pp, st in outs)
    ctx.ob("C05.4", "%s|first-supported-wins" % p.id, "the first coding (in preference order) that is supported is the answer", ok, "%s:%d" % (p.file, p.line))
    tefs = method(facts, T_FROMSTR, TE, "from_str")
    tbl = {}
    for bb, t in tefs.calls():
        if call_matches(t, r"eq_ignore_ascii_case$") and t.get("target") is not None:
            lit = [c for c in arg_consts(tefs, t) if isinstance(c, str)]
            bs = bool_switch(tefs, t["target"])
            if lit and bs:
                outs = shared.eval_from(tefs, bs[1])
                vs = set()
                for pp, st in outs:
                    v = st.read_key((0,))
                    if v[0] == "agg" and v[2] == "Ok":
                        vs.add(v[3]["0"][2])
                tbl[lit[0]] = vs
    ok = tbl == {"identity": {"Identity"}, "chunked": {"Chunked"}}
    ctx.ob("C05.4", "%s|coding-literals" % tefs.id, "exactly `identity` and `chunked` (any letter case) are supported and map to the matching variant", ok, "%s:%d" % (tefs.file, tefs.line), str(tbl))
    variants = [v["name"] for v in facts.adt(TE)["variants"]]
    ctx.ob("C05.4", "%s|variants" % TE, "the supported codings are Identity and Chunked", sorted(variants) == ["Chunked", "Identity"], TE)
    return {}
