"""C05 — chunked/identity selection is a fixed function of version, status, TE and length."""
import re, itertools
from core import *  # noqa
from roles import *  # noqa
import roles, shared, symex, predeval

EXPLANATION = (
    "Decision-table extraction on MIR: choose_transfer_encoding is walked block by block; each guard expression (version comparison, status "
    "comparisons, TE preference present, body length vs. threshold through the map_or closure) is evaluated over a boundary-complete set of "
    "representative inputs and the outcome is compared with DESIGN A.2, which fixes operators, constants and precedence; HTTPVersion's ordering is "
    "checked to be lexicographic and the tuple impls to delegate to it; the threshold default/override and the arguments raw_print passes are "
    "checked by provenance; the TE preference is sorted descending by q, q<=0 skipped, first supported coding wins, and the accepted coding "
    "literals agree with the enum. Tokenisation of arbitrary TE strings is not decided.")
TRUSTED = ["rustc MIR", "std PartialOrd default methods (le/gt from partial_cmp)", "f32 comparison semantics", "slice::sort_by is a stable sort"]


ORD = "std::cmp::Ordering"


def hv(a, b):
    return ("agg", HV, "HTTPVersion", {"0": ("const", a, "%d_u8" % a, None), "1": ("const", b, "%d_u8" % b, None)})


def models(bb, t, args, st):
    """on_call models: integer `cmp` on constants, and (for the chooser) comparisons of a known HTTPVersion with a constant (lexicographic: C05.2)"""
    import absint
    n = call_name(t) + " " + (t.get("res_name") or "")
    def val(a):
        if a[0] == "ref":
            return st.read_key(a[1])
        if a[0] == "constref":
            return a[1]
        return a
    m_t = re.search(r"core::tuple::<impl std::cmp::(Ord|PartialOrd|PartialEq) for \(U, T\)>::(cmp|partial_cmp|eq|ne|lt|le|gt|ge)\b", n)
    if m_t and len(args) == 2:
        # std's comparison of pairs is lexicographic; decided when both pairs are known constants
        def pair(a):
            v = absint.deep(st, val(a))
            while v and v[0] in ("ref*", "constref"):
                v = v[1]
            if v and v[0] == "tuple" and len(v[1]) == 2:
                x, y = absint.const_of(v[1][0]), absint.const_of(v[1][1])
                if isinstance(x, int) and isinstance(y, int):
                    return (x, y)
            return None
        pa, pb = pair(args[0]), pair(args[1])
        if pa is not None and pb is not None:
            op = m_t.group(2)
            if op in ("cmp", "partial_cmp"):
                r = ("agg", ORD, "Less" if pa < pb else ("Greater" if pa > pb else "Equal"), {})
                return r if op == "cmp" else ("some", r)
            r = {"eq": pa == pb, "ne": pa != pb, "lt": pa < pb, "le": pa <= pb, "gt": pa > pb, "ge": pa >= pb}[op]
            return ("const", r, str(r).lower(), None)
    if re.search(r"impl std::cmp::Ord for u8>::cmp\b|<u8 as std::cmp::Ord>::cmp\b", n) and len(args) == 2:
        a, b = absint.const_of(val(args[0])), absint.const_of(val(args[1]))
        if isinstance(a, int) and isinstance(b, int):
            return ("agg", ORD, "Less" if a < b else ("Greater" if a > b else "Equal"), {})
    if re.search(r"impl std::cmp::PartialOrd for u8>::partial_cmp\b|<u8 as std::cmp::PartialOrd>::partial_cmp\b", n) and len(args) == 2:
        a, b = absint.const_of(val(args[0])), absint.const_of(val(args[1]))
        if isinstance(a, int) and isinstance(b, int):
            return ("some", ("agg", ORD, "Less" if a < b else ("Greater" if a > b else "Equal"), {}))
    return None


def version_models(bb, t, args, st):
    import absint, parser_rules as PRS
    r = models(bb, t, args, st)
    if r is not None:
        return r
    n = call_name(t) + " " + (t.get("res_name") or "")
    m = re.search(r"<common::HTTPVersion as std::cmp::Partial(?:Eq|Ord)(?:<.*>)?>::(eq|ne|lt|le|gt|ge)\b", n)
    if m and len(args) == 2:
        def val(a):
            if a[0] == "ref":
                return st.read_key(a[1])
            if a[0] == "constref":
                return a[1]
            return a
        a, b = PRS.version_const(val(args[0])), PRS.version_const(val(args[1]))
        if a is not None and b is not None:
            r = PRS.CMP[m.group(1)](a, b)
            return ("const", r, str(r).lower(), None)
    return None


def local_reach(facts, k):
    """local functions reachable from k through resolved calls, counting closures with the function they are written in"""
    seen, work = set(), [k]
    while work:
        x = work.pop()
        if x in seen:
            continue
        seen.add(x)
        work += [c for c in facts.local_fns if c.startswith(x + "::{closure")]
        g = facts.fns.get(x)
        if g is not None and g.rec.get("local"):
            work += [call_name(t) for bb, t in g.calls() if call_name(t) in facts.local_fns]
            # functions handed over as values (`most_preferred(s, TransferEncoding::from_token)`)
            for bb, t in g.calls():
                for a in t["args"]:
                    if a.get("k") == "const" and a.get("fn") in facts.local_fns:
                        work.append(a["fn"])
    return seen


def fold_preference_rules(ctx, facts, g, te_parse):
    """the preference order computed by one pass that keeps the best candidate seen so far: entries with q <= 0 are filtered out before, only
    supported codings take part, and a later candidate replaces the best one only when its weight is strictly greater (ties: first listed wins)"""
    where = "%s:%d" % (g.file, g.line)
    fb = [(bb, t) for bb, t in g.calls() if call_matches(t, r"Iterator>?::fold(::<|$)")]
    ok_fold = False
    detail = None
    if len(fb) == 1:
        co = g.origin(fb[0][1]["args"][2]) if len(fb[0][1]["args"]) > 2 else ("unknown",)
        cf = facts.fns.get(co[1]) if co[0] == "agg" else None
        if cf is not None:
            # the closure compares the best weight so far (from its first argument) with the candidate's weight (from its second)
            for b2 in sorted(cf.live_blocks()):
                bs = bool_switch(cf, b2)
                if not bs:
                    continue
                o = cf.origin(bs[0])
                if o[0] == "binop" and o[1] in ("Ge", "Gt", "Le", "Lt"):
                    l_best = any(x == ("arg", 2) for x in origin_walk(o[2])) and not any(x == ("arg", 3) for x in origin_walk(o[2]))
                    r_new = any(x == ("arg", 3) for x in origin_walk(o[3]))
                    l_new = any(x == ("arg", 3) for x in origin_walk(o[2])) and not any(x == ("arg", 2) for x in origin_walk(o[2]))
                    r_best = any(x == ("arg", 2) for x in origin_walk(o[3]))
                    # which edge keeps the best?  the one on which the closure returns its first argument unchanged
                    def keeps(tgt):
                        outs = shared.eval_from(cf, tgt)
                        return bool(outs) and all(symex.sym_str(st.read_key((0,))).find("init(2") >= 0 or st.read_key((0,)) == ("init", (2,)) for pp, st in outs)
                    keep_true, keep_false = keeps(bs[1]), keeps(bs[2])
                    if l_best and r_new:
                        # best OP new
                        ok_fold = (o[1] == "Ge" and keep_true and not keep_false) or (o[1] == "Lt" and keep_false and not keep_true)
                        detail = "best %s candidate: keep on %s" % (o[1], "true" if keep_true else "false")
                    elif l_new and r_best:
                        ok_fold = (o[1] == "Gt" and keep_false and not keep_true) or (o[1] == "Le" and keep_true and not keep_false)
                        detail = "candidate %s best: keep on %s" % (o[1], "true" if keep_true else "false")
    ctx.ob("C05.4", "%s|best-so-far" % g.id, "the most preferred coding is found by keeping the best weight seen so far; a later entry replaces it only with a strictly greater weight (equal weights: first listed wins)",
           ok_fold, where, detail)
    # q <= 0 filtered before, and only supported codings take part
    skip_ok = False
    for bb, t in g.calls():
        if call_matches(t, r"Iterator>?::filter(::<|$)|Vec::<T(, A)?>::retain$") and len(t["args"]) > 1:
            co = g.origin(t["args"][1])
            cf = facts.fns.get(co[1]) if co[0] == "agg" else None
            if cf is not None:
                for b2, i2, s2 in cf.assigns():
                    r2 = s2["rhs"]
                    if r2["rv"] == "binop" and r2["op"] == "Gt" and op_const(r2["b"]) == ("float", 0.0) and s2["lhs"] == {"l": 0, "p": []}:
                        skip_ok = fb and g.dominates(bb, fb[0][0], unwind=False)
    ctx.ob("C05.4", "%s|skip-q-zero" % g.id, "an entry with q <= 0 (or a q that is not a number) is dropped before the codings are compared", bool(skip_ok), where)
    # the token parser is applied to the candidates BEFORE they are compared: in a stage of the pipeline the fold draws from, or in the fold's
    # own function (choosing the best of all entries and parsing the winner afterwards drops the preference whenever an unsupported coding
    # ranks first)
    def calls_parser(fid, seen=()):
        f_ = facts.fns.get(fid)
        if f_ is None or fid in seen:
            return False
        if f_.call_blocks(lambda t: is_te_parse(t, te_parse)) or any(a.get("k") == "const" and a.get("fn") == te_parse for b_, t_ in f_.calls() for a in t_["args"]):
            return True
        return any(calls_parser(c, seen + (fid,)) for c in local_reach(facts, fid) if c != fid and c.startswith(fid))
    uses_parser = False
    if len(fb) == 1:
        recv = g.origin(fb[0][1]["args"][0])
        stage_fns = [x[1] for x in origin_walk(recv) if x[0] == "agg" and isinstance(x[1], str) and x[1] in facts.fns]
        stage_fns += [x[3] for x in origin_walk(recv) if x[0] == "const" and len(x) > 3 and isinstance(x[3], str) and x[3] in facts.fns]
        co_ = g.origin(fb[0][1]["args"][2]) if len(fb[0][1]["args"]) > 2 else ("unknown",)
        if co_[0] == "agg" and co_[1] in facts.fns:
            stage_fns.append(co_[1])
        uses_parser = any(calls_parser(x) for x in stage_fns) or any(x[0] == "const" and len(x) > 3 and x[3] == te_parse for x in origin_walk(recv))
        if not uses_parser:
            # the parser handed in as a function parameter (`most_preferred(value, TransferEncoding::from_token)`) and called by a stage
            # that captures that parameter
            ks = set()
            cs_ = list(facts.callers_of(g.id))
            for h, b_, t_ in cs_:
                ks_ = {i_ + 1 for i_, a in enumerate(t_["args"]) if a.get("k") == "const" and a.get("fn") == te_parse}
                ks = ks_ if not ks else (ks & ks_)
            aggs = [x for x in origin_walk(recv) if x[0] == "agg" and isinstance(x[1], str) and "{closure" in x[1]]
            if co_[0] == "agg":
                aggs.append(co_)
            if cs_ and ks:
                uses_parser = any(any(y == ("arg", k_) for op_ in x[2] for y in origin_walk(op_)) for x in aggs for k_ in ks)
    ctx.ob("C05.4", "%s|first-supported-wins" % g.id, "only codings the token parser recognises take part in the comparison", uses_parser, where)


def is_te_parse(t, te_parse):
    """a call of the token parser: directly, or through `str::parse::<TransferEncoding>()` (which is FromStr::from_str)"""
    if call_name(t) == te_parse:
        return True
    return bool(re.search(r"<impl str>::parse$", call_name(t))) and ("parse::<%s>" % TE) in (t.get("res_name") or "")


def te_parser(facts, cte):
    """the client-preference token parser, bound by role: the function of the chooser's file that turns one &str into a TransferEncoding
    (`Result<TransferEncoding, _>` / `Option<TransferEncoding>`)"""
    out = []
    for k, g in sorted(facts.local_fns.items()):
        if g.file != cte.file or "{closure" in k or g.argc != 1 or g.locals[1]["ty"] != "&str":
            continue
        if re.match(r"^std::(result::Result|option::Option)<%s\b" % re.escape(TE), g.locals[0]["ty"]):
            out.append(k)
    if len(out) > 1:
        # the one the others are built on (a helper that walks the TE value calls the token parser, not the other way round)
        def reach_of(k):
            seen, work = set(), [k]
            while work:
                x = work.pop()
                if x in seen:
                    continue
                seen.add(x)
                work += [c for c in facts.local_fns if c.startswith(x + "::{closure")]
                g = facts.fns.get(x)
                if g is not None and g.rec.get("local"):
                    work += [call_name(t) for bb, t in g.calls() if call_name(t) in facts.local_fns]
            return seen
        reach = {k: reach_of(k) for k in out}
        out = [k for k in out if not any(o != k and o in reach[k] for o in out)]
    if len(out) != 1:
        raise CheckerError("C05: the function parsing one transfer-coding token was not found (%s)" % out)
    return out[0]


class ChooserModel:
    def __init__(self, facts):
        import response_rules as RSP, inline
        import queue_rules as Q
        self.facts = facts
        M = self.M = RSP.resp_model(facts)
        cte = self.cte = M.chooser
        same = lambda d: facts.fns[d].rec.get("local") and facts.fns[d].file == cte.file
        self.te_parse = te_parser(facts, cte)
        te_parse = self.te_parse
        f = self.f = inline.inlined(facts, cte.id, stop=lambda d: facts.fns[d].rec.get("local") and (not same(d) or d == te_parse), extern_ok=Q.std_small)
        # inputs by type, whether they are parameters of their own or fields of a struct of the crate handed in (by value or by reference):
        # status (StatusCode), request headers (&[Header]), version (&HTTPVersion), entity length (Option<usize>), bools, threshold (usize)
        self.fixed_false = {}
        P = self.P = {}
        def classify(ty):
            t = re.sub(r"^&('\w+ )?(mut )?", "", ty)
            if t == STATUS:
                return "status"
            if t.startswith("[common::Header"):
                return "headers"
            if t == HV:
                return "version"
            if "Option<usize>" in t:
                return "length"
            if t == "usize":
                return "threshold"
            if t == "bool":
                return "bools"
            return None
        def visit(i, path, ty, depth=0):
            k = classify(ty)
            if k == "bools":
                P.setdefault("bools", []).append((i, path))
            elif k is not None:
                P.setdefault(k, (i, path))
            else:
                a = facts.adts.get(re.sub(r"<.*$", "", re.sub(r"^&('\w+ )?(mut )?", "", ty)))
                if a is not None and a["kind"] == "Struct" and depth < 2:
                    for x in a["variants"][0]["fields"]:
                        visit(i, path + ((a["id"], x["name"], x["ty"]),), x["ty"], depth + 1)
        for i in range(1, f.argc + 1):
            visit(i, (), f.locals[i]["ty"])
        if not {"status", "version", "length", "threshold"} <= set(P):
            raise CheckerError("C05.1: parameters of the coding chooser (%s)" % sorted(P))

    def key_of(self, slot):
        """symbolic-state key of an input, and whether what is stored there is a reference"""
        i, path = slot
        f = self.f
        key = (i,)
        ty = f.locals[i]["ty"]
        for adt, name, fty in path:
            if ty.startswith("&"):
                key += ("*",)
            key += ("." + name,)
            ty = fty
        return key, ty.startswith("&")

    def put(self, st, slot, val):
        key, is_ref = self.key_of(slot)
        if is_ref and len(key) == 1:
            st.write_key(key + ("*",), val)
        else:
            st.write_key(key, ("constref", val) if is_ref else val)

    def bool_is_fixed_false(self, slot):
        """a boolean input that every caller sets to the literal false (has_additional_headers): a direct argument, or a field of an
        argument bundle at each place the bundle is built"""
        facts = self.facts
        i, path = slot
        if not path:
            sites = facts.callers_of(self.cte.id)
            return bool(sites) and all(op_const(t["args"][i - 1]) is False for g, bb, t in sites)
        adt, name, fty = path[-1]
        cons = facts.constructions(adt)
        a = facts.adts[adt]
        idx = [x["name"] for x in a["variants"][0]["fields"]].index(name)
        return bool(cons) and all(op_const(s["rhs"]["ops"][idx]) is False for g, bb, s in cons)

    def outcomes(self, ver, stt, ln, thr):
        """the codings the chooser can return for this input: 'Identity' / 'Chunked' / 'client' (what the TE header asked for)"""
        import absint
        f, P = self.f, self.P
        st = symex.Sym(f)
        self.put(st, P["status"], ("agg", STATUS, "StatusCode", {"0": ("const", stt, "%d_u16" % stt, None)}))
        self.put(st, P["version"], hv(*ver))
        self.put(st, P["length"], ("none",) if ln is None else ("some", ("const", ln, "%d_usize" % ln, None)))
        self.put(st, P["threshold"], ("const", thr, "%d_usize" % thr, None))
        for b in P.get("bools", []):
            if self.fixed_false.setdefault(b, self.bool_is_fixed_false(b)):
                self.put(st, b, ("const", False, "false", None))
        ps = [p for p in absint.explore(f, 0, st, on_call=version_models, max_paths=3000, max_visits=2) if p.end[0] == "return"]
        outs = set()
        for p in ps:
            r = p.ret()
            if r[0] == "agg" and r[1] == TE and not any(x and x[0] in ("call", "payload", "refined", "downcast", "field") for x in absint.walk_terms(r)):
                outs.add(r[2])
            else:
                outs.add("client")
        return outs, len(ps)


def threshold_api(facts, M):
    """the Response's chunking threshold seen through its API: (getter, setter, fields read by the getter as {(owner adt, field)}).
    getter: the public `&self -> usize` method of Response; setter: the public `(self, usize) -> Response` method"""
    if hasattr(facts, "_thr_api"):
        return facts._thr_api
    import inline
    ms = [g for k, g in sorted(facts.local_fns.items()) if g.rec.get("impl_self_adt") == RESP and g.rec.get("impl_trait") is None and g.rec.get("vis_pub") and "{closure" not in k]
    getters = [g for g in ms if g.argc == 1 and g.locals[0]["ty"] == "usize" and re.match(r"^&(?!mut )", g.locals[1]["ty"])]
    setters = [g for g in ms if g.argc == 2 and g.locals[2]["ty"] == "usize" and g.locals[1]["ty"].startswith(RESP) and g.locals[0]["ty"].startswith(RESP)]
    getter = getters[0] if len(getters) == 1 else None
    setter = setters[0] if len(setters) == 1 else None
    fields = set()
    if getter is not None:
        gi = inline.inlined(facts, getter.id, stop=lambda d: facts.fns[d].rec.get("local") and facts.fns[d].file != getter.file)
        names = set()
        for bb, i, s_ in gi.assigns():
            for p_, kind in rvalue_places(s_["rhs"]):
                names |= set(pl_fields(p_))
        for bb, t in gi.calls():
            for a in t["args"]:
                pl_ = op_place(a)
                if pl_:
                    names |= set(pl_fields(pl_))
        # owners: the Response itself and the private structs reachable from it
        seen, work = set(), [RESP]
        while work:
            aid = work.pop()
            a = facts.adts.get(aid)
            if a is None or aid in seen or a["kind"] != "Struct":
                continue
            seen.add(aid)
            for x in a["variants"][0]["fields"]:
                if x["name"] in names and not x["name"].isdigit():
                    fields.add((aid, x["name"]))
                work.append(re.sub(r"<.*$", "", x["ty"]))
        # only the field(s) that hold the threshold: of integer-ish type (usize, Option<usize>, a newtype of the crate), not the reader / headers
        def thr_ty(ty):
            return ty in ("usize", "std::option::Option<usize>") or (ty in facts.adts and facts.adts[ty]["kind"] == "Struct" and
                                                                     [y["ty"] for y in facts.adts[ty]["variants"][0]["fields"]] in (["usize"], ["std::option::Option<usize>"]))
        fields = {(o_, f_) for o_, f_ in fields if thr_ty([x["ty"] for x in facts.adts[o_]["variants"][0]["fields"] if x["name"] == f_][0])}
    facts._thr_api = (getter, setter, fields)
    return facts._thr_api


def chooser_model(facts):
    if not hasattr(facts, "_chooser_model"):
        facts._chooser_model = ChooserModel(facts)
    return facts._chooser_model


def run(ctx):
    facts = ctx.facts
    roles.bind(facts)
    import response_rules as RSP, inline, absint
    import queue_rules as Q
    CM = chooser_model(facts)
    M, cte, f, P, te_parse = CM.M, CM.cte, CM.f, CM.P, CM.te_parse
    raw_print = M.rp
    ctx.touch(f)
    where = "%s:%d" % (cte.file, cte.line)

    # ---- C05.1 decision table
    lookup = set()
    for dep, d in f.inlined:
        g = facts.fns.get(d)
        if g is None:
            continue
        for bb, t in g.calls():
            if call_matches(t, r"HeaderField::equiv$"):
                lookup |= {c for c in arg_consts(g, t) if isinstance(c, str)}
    for k, g in facts.local_fns.items():
        if k.startswith(cte.id + "::{closure") or any(k.startswith(d + "::{closure") for dep, d in f.inlined):
            for bb, t in g.calls():
                if call_matches(t, r"HeaderField::equiv$"):
                    lookup |= {c for c in arg_consts(g, t) if isinstance(c, str)}
    # ... or through a lookup helper of the crate (anywhere) that is handed the header list and the name
    for fid in sorted(local_reach(facts, cte.id)):
        g = facts.fns.get(fid)
        if g is None:
            continue
        for bb, t in g.calls():
            h = facts.fns.get(call_name(t))
            if h is not None and h.rec.get("local") and "{closure" not in h.id and any("common::Header" in h.local_ty(i) for i in range(1, h.argc + 1)) \
                    and any(re.search(r"&('\w+ )?str\b", h.local_ty(i)) for i in range(1, h.argc + 1)):
                lookup |= {c for c in arg_consts(g, t) if isinstance(c, str)}
    # ... or is looked up by the caller and handed to the chooser (the chooser has no header list among its inputs): what feeds its arguments
    if "headers" not in P:
        rf0 = M.f
        def equivs_in(fid):
            out = set()
            for x in sorted(local_reach(facts, fid)):
                g = facts.fns.get(x)
                if g is None:
                    continue
                for bb, t in g.calls():
                    if call_matches(t, r"HeaderField::equiv$"):
                        out |= {c for c in arg_consts(g, t) if isinstance(c, str)}
            return out
        for bb, t in rf0.calls():
            if call_name(t) != cte.id:
                continue
            sl = shared.backward_slice_locals(rf0, [op_local(a) for a in t["args"] if op_local(a) is not None], limit=400)
            for b2, t2 in rf0.calls():
                if t2.get("dest") is None or t2["dest"]["l"] not in sl or call_name(t2) == cte.id:
                    continue
                h = facts.fns.get(call_name(t2))
                if h is not None and h.rec.get("local") and any("common::Header" in h.local_ty(i) for i in range(1, h.argc + 1)):
                    lookup |= equivs_in(h.id)
                    lookup |= {c for c in arg_consts(rf0, t2) if isinstance(c, str)}
                for a in t2["args"]:
                    for x in origin_walk(rf0.origin(a)):
                        if x[0] == "agg" and isinstance(x[1], str) and x[1] in facts.local_fns and "{closure" in x[1]:
                            lookup |= equivs_in(x[1])
    ctx.ob("C05.1", "%s|looks-up-TE" % cte.id, "the client's preference is read from the `TE` request header", lookup == {"TE"}, where, str(sorted(lookup)))
    thr_values = [0, 1, 5, 32768]
    versions = [(0, 9), (1, 0), (1, 1), (1, 2), (2, 0), (0, 255)]
    statuses = [99, 100, 199, 200, 201, 203, 204, 205, 304, 404, 65535]
    bad = []
    rows = 0
    for thr in thr_values:
        lengths = [None] + sorted({0, max(thr - 1, 0), thr, thr + 1})
        for ver, stt, ln in itertools.product(versions, statuses, lengths):
            outs, npaths = CM.outcomes(ver, stt, ln, thr)
            rows += 1
            ctx.paths += npaths
            if ver <= (1, 0) or stt < 200 or stt == 204:
                want = {"Identity"}
                ok = outs == want
            else:
                default = "Chunked" if (ln is None or ln >= thr) else "Identity"
                ok = default in outs and "client" in outs and outs <= {default, "client"}
                want = {default, "client"}
            if not ok:
                bad.append((ver, stt, ln, thr, sorted(outs), sorted(want)))
    ctx.counts["C05.1 table rows"] = rows
    ctx.ob("C05.1", "%s|table" % cte.id,
           "for every representative (version, status, body length, threshold) the coding chosen is the one of the property's table: identity for <=1.0, identity for 1xx/204 (whatever the client prefers), "
           "otherwise the client's preferred coding when it has one, else chunked iff length unknown or >= threshold",
           not bad, where, None if not bad else "mismatches (version,status,len,thr,got,want): %s" % bad[:4])
    sites = facts.callers_of(cte.id)
    ctx.floor("C05.1 call sites of the coding chooser", len(sites), 1)
    for g, bb, t in sites:
        okb = all(CM.bool_is_fixed_false(b) for b in P.get("bools", []) if not b[1] or "additional" in b[1][-1][1])
        ctx.ob("C05.1", "call|%s" % g.id, "the coding chooser is called only from the response module, with has_additional_headers = false", g.file == cte.file and okb, g.loc(bb))
    # the chooser's answer is what goes onto the wire: on the abstract paths of raw_print, for either answer, the framing header written
    # is the one of that coding (never overridden afterwards)
    bad_applied = []
    for stt, dlen, te, dns in itertools.product((200, 404), (None, 0, 7, 100000), ("Identity", "Chunked"), (False, True)):
        for pth in M.run(stt, dlen, dns, te, False):
            S = M.summary(pth)
            if not S["ok"]:
                continue
            names = [n for i, n, v in S["headers"]]
            has_te, has_cl = b"Transfer-Encoding" in names, b"Content-Length" in names
            if (te == "Chunked") != has_te or (te == "Identity") != has_cl:
                bad_applied.append((stt, dlen, te, "HEAD" if dns else "GET", [n.decode() for n in names if n in (b"Transfer-Encoding", b"Content-Length")]))
    # ... and a protocol upgrade is framed by neither, whatever the chooser would have said and whether or not a length is declared
    for stt, dlen, te in itertools.product((101, 200), (None, 0, 7), ("Identity", "Chunked")):
        for pth in M.run(stt, dlen, False, te, True):
            S = M.summary(pth)
            if not S["ok"]:
                continue
            names = [n for i, n, v in S["headers"]]
            if b"Transfer-Encoding" in names or b"Content-Length" in names:
                bad_applied.append((stt, dlen, te, "upgrade", [n.decode() for n in names if n in (b"Transfer-Encoding", b"Content-Length")]))
    ctx.ob("C05.1", "%s|answer-applied" % raw_print.id, "the coding the chooser answered is the one applied, whether or not the body is sent (HEAD): `Transfer-Encoding: chunked` is written iff it answered chunked, `Content-Length` iff it answered identity",
           not bad_applied, "%s:%d" % (raw_print.file, raw_print.line), None if not bad_applied else str(bad_applied[:3]))
    # what raw_print passes: its own status, the request's headers and version, its declared length and threshold
    rf = M.f
    for bb, t in rf.calls():
        if call_name(t) != cte.id:
            continue
        def arg_origin(slot):
            i, path = slot
            o = rf.origin(t["args"][i - 1])
            for adt, name, fty in path:
                while o[0] == "ref":
                    o = o[1]
                if o[0] == "agg" and o[3] and name in o[3]:
                    o = o[2][o[3].index(name)]
                else:
                    o = ("field", o, name)
            return o
        o = {k: arg_origin(v) for k, v in P.items() if k != "bools"}
        ctx.ob("C05.3", "%s|passes-own-status" % raw_print.id, "the decision is made on the response's own status code", M.status_f in origin_fields(o["status"]), rf.loc(bb), origin_str(o["status"]))
        if "headers" in o:
            ctx.ob("C05.3", "%s|passes-request-headers" % raw_print.id, "... on the request's headers", any(x == ("arg", 4) for x in origin_walk(o["headers"])), rf.loc(bb), origin_str(o["headers"]))
        ctx.ob("C05.3", "%s|passes-request-version" % raw_print.id, "... on the request's HTTP version, as given (not raised, lowered or replaced on the way: an HTTP/1.0 client must be answered as one)",
               any(x == ("arg", 3) for x in origin_walk(o["version"])) and not [x for x in origin_walk(o["version"]) if x[0] == "call" and not re.search(r"(::clone|::deref|::borrow|::as_ref|::into|::from|::to_owned)$", x[1])],
               rf.loc(bb), origin_str(o["version"]))
        ctx.ob("C05.3", "%s|passes-declared-length" % raw_print.id, "... on the response's declared length", M.dlen_f in origin_fields(o["length"]), rf.loc(bb), origin_str(o["length"]))
        getter_, setter_, thr_fields_ = threshold_api(facts, M)
        tf_names = {fld for owner, fld in thr_fields_}
        okt = (getter_ is not None and any(x[0] == "call" and x[1] == getter_.id for x in origin_walk(o["threshold"]))) or bool(tf_names & origin_fields(o["threshold"]))
        if not okt and tf_names:
            sl = shared.backward_slice_locals(rf, [x[1] for x in origin_walk(o["threshold"]) if x[0] == "local"] + ([op_local(t["args"][P["threshold"][0] - 1])] if not P["threshold"][1] else []))
            for b2, i2, s2 in rf.assigns():
                if s2["lhs"]["l"] in sl:
                    for p_, kind in rvalue_places(s2["rhs"]):
                        if tf_names & set(pl_fields(p_)):
                            okt = True
        ctx.ob("C05.3", "%s|passes-threshold" % raw_print.id, "... and on the response's chunking threshold", okt, rf.loc(bb), origin_str(o["threshold"]))

    # ---- C05.2 ordering of HTTPVersion (samples through the impls)
    samples = [((1, 0), (1, 1)), ((1, 1), (1, 0)), ((1, 1), (1, 1)), ((0, 9), (1, 0)), ((2, 0), (1, 1)), ((1, 9), (2, 0)), ((0, 255), (1, 0)), ((1, 0), (0, 255)), ((3, 0), (3, 0))]
    def want_ord(a, b):
        return "Less" if a < b else ("Greater" if a > b else "Equal")
    cmp_id = facts.trait_method("std::cmp::Ord", HV, "cmp")
    pc_id = facts.trait_method("std::cmp::PartialOrd", HV, "partial_cmp")
    for fid, label, wrap in ((cmp_id, "lexicographic", False), (pc_id, "delegates", True)):
        ok = fid is not None
        detail = None
        if ok:
            g0 = facts.fn(fid)
            g = inline.inlined(facts, fid, stop=lambda d: facts.fns[d].rec.get("local") and facts.fns[d].file != g0.file, extern_ok=Q.std_small)
            ctx.touch(g)
            for a, b in samples:
                st = symex.Sym(g)
                st.write_key((1, "*"), hv(*a))
                st.write_key((2, "*"), hv(*b))
                rets = {repr(p.ret()) for p in absint.explore(g, 0, st, on_call=models) if p.end[0] == "return"}
                w = ("agg", ORD, want_ord(a, b), {})
                if wrap:
                    w = ("some", w)
                if rets != {repr(w)}:
                    ok = False
                    detail = "%s vs %s -> %s" % (a, b, sorted(rets)[:2])
        ctx.ob("C05.2", "%s|%s" % (fid, label), "versions are ordered by major, then minor (self compared with other, not swapped)" if not wrap else "partial_cmp agrees with that total order", ok,
               "%s:%d" % (facts.fn(fid).file, facts.fn(fid).line) if fid else HV, detail)
    for g0 in facts.find_fns(r"^<common::HTTPVersion as std::cmp::PartialOrd<\(u8, u8\)>>::partial_cmp$"):
        g = inline.inlined(facts, g0.id, stop=lambda d: facts.fns[d].rec.get("local") and facts.fns[d].file != g0.file, extern_ok=Q.std_small)
        ok = True
        detail = None
        for a, b in samples:
            st = symex.Sym(g)
            st.write_key((1, "*"), hv(*a))
            st.write_key((2, "*"), ("tuple", [("const", b[0], "%d_u8" % b[0], None), ("const", b[1], "%d_u8" % b[1], None)]))
            rets = {repr(p.ret()) for p in absint.explore(g, 0, st, on_call=models) if p.end[0] == "return"}
            if rets != {repr(("some", ("agg", ORD, want_ord(a, b), {})))}:
                ok = False
                detail = "%s vs %s -> %s" % (a, b, sorted(rets)[:2])
        ctx.ob("C05.2", "%s|tuple-delegates" % g0.id, "comparison with a (major, minor) tuple follows the same order", ok, "%s:%d" % (g0.file, g0.line), detail)

    # ---- C05.3 threshold: judged through the Response's own API, whatever the field looks like (an `Option<usize>` with the default applied
    # in the getter, a newtype that stores the effective value, ...): a response made by the constructor answers 32768, and one that went
    # through the setter answers the setter's argument
    getter, setter, thr_fields = threshold_api(facts, M)
    ctx.require(getter is not None, "C05.3: the public getter of the chunking threshold (`&self -> usize` of Response)")
    import rules_C19 as _C19
    rnew = roles.inherent(facts, RESP, "new")
    stop_f = lambda d: facts.fns[d].rec.get("local") and facts.fns[d].file != cte.file
    def eval_fn(g0, bind):
        g = inline.inlined(facts, g0.id, stop=stop_f, extern_ok=Q.std_small)
        st = symex.Sym(g)
        for k_, v_ in bind.items():
            st.write_key(k_, v_)
        return g, [p for p in absint.explore(g, 0, st, max_paths=4000) if p.end[0] == "return"]
    fresh = []
    gnew, psn = eval_fn(rnew, {})
    for p in psn:
        r = absint.freeze(p.state, p.ret())
        if r and r[0] == "agg" and r[1] == RESP and repr(r) not in [repr(x) for x in fresh]:
            fresh.append(r)
    def threshold_of(resp):
        base = (1, "*") if getter.locals[1]["ty"].startswith("&") else (1,)
        g, ps = eval_fn(getter, {base: resp})
        return {absint.const_of(absint.deep(p.state, p.ret())) for p in ps}
    ok = bool(fresh)
    detail = None
    for r in fresh[:6]:
        got = threshold_of(r)
        if got != {32768}:
            ok, detail = False, "a freshly built response answers %s" % sorted(map(str, got))
    ctx.ob("C05.3", "%s|default-32768" % RESP, "the threshold is the configured one, 32768 by default", ok, where, detail)
    ok = setter is not None and bool(fresh)
    detail = None
    if ok:
        for n_ in (5, 0, 100000):
            g, ps = eval_fn(setter, {(1,): fresh[0], (2,): ("const", n_, "%d_usize" % n_, None)})
            outs = [absint.freeze(p.state, p.ret()) for p in ps]
            if not outs:
                ok, detail = False, "the setter does not return"
            for r in outs:
                got = threshold_of(r)
                if got != {n_}:
                    ok, detail = False, "after setting %d the response answers %s" % (n_, sorted(map(str, got)))
    # ... and nothing else writes what the getter reads
    writers = set()
    for owner, fld in sorted(thr_fields):
        for g, bb, kind, x in facts.field_writes(owner, fld):
            if kind in ("assign", "calldest", "mutref"):
                writers.add(g.id)
    ok = ok and writers <= {setter.id if setter is not None else None} and (setter is None or setter.rec.get("vis_pub"))
    ctx.ob("C05.3", "%s|threshold-setter-stores-argument" % RESP, "the threshold is changed only by its public setter, which stores exactly its argument", ok, where, detail or str(sorted(writers)))

    import rules_C19
    rules_C19.conv_fields(ctx, facts, "C05.3")
    # the framing headers on the wire are the library's own: no Content-Length / Transfer-Encoding supplied by the application is ever stored
    # in the header list (decided by C19's table of add_header; taken over here because a stored one would contradict the coding chosen)
    import engine
    c2 = engine.Ctx("C05", "quick", facts, 0)
    rules_C19.run(c2)
    n5 = 0
    for o in c2.obs:
        if o.rule == "C19.1" and (o.key.endswith("|table") or o.key.endswith("|atoms")):
            n5 += 1
            ctx.obs.append(engine.Ob("C05.5|" + o.key.split("|", 1)[1], "C05.5", o.text, o.ok, o.where, o.detail, o.nontrivial))
    ctx.floor("C05.5 obligations on application-supplied framing headers", n5, 2)

    # ---- C05.4 TE preference
    # bound by role: the function (closure or helper) on the chooser's path that sorts the parsed preferences, and the comparator it passes to sort_by
    cands = [facts.fns[d] for d in sorted(local_reach(facts, cte.id)) if d in facts.fns]
    pref = []
    for g in cands:
        if g.call_blocks(lambda t: call_matches(t, r"<impl \[T\]>::sort(_unstable)?_by$")) and g.id not in [x.id for x in pref]:
            pref.append(g)
    folds = []
    for g in cands:
        if g.call_blocks(lambda t: call_matches(t, r"Iterator>?::(fold|max_by|min_by|reduce)(::<|$)")) and g.id not in [x.id for x in folds]:
            folds.append(g)
    if len(pref) == 1:
        p = pref[0]
        sb0 = [(bb, t) for bb, t in p.calls() if call_matches(t, r"<impl \[T\]>::sort(_unstable)?_by$")]
        so = p.origin(sb0[0][1]["args"][1])
        ctx.require(so[0] == "agg" and so[1] in facts.fns, "C05.4: sort comparator is not a closure")
        sc = facts.fns[so[1]]
        ctx.touch(p); ctx.touch(sc)
        o = sc.origin_place({"l": 0, "p": []})
        pcs = [x for x in origin_calls(o) if re.search(r"(partial_cmp|total_cmp|::cmp)$", x[1])]
        ok = False
        if pcs:
            a, b = pcs[0][2]
            sa, sb = origin_str(a), origin_str(b)
            ok = "arg3" in sa and "arg2" in sb and sa.endswith(".1") and sb.endswith(".1")
        ctx.ob("C05.4", "%s|descending-q" % sc.id, "codings are sorted by descending q (the comparator compares b.q with a.q)", ok, "%s:%d" % (sc.file, sc.line), origin_str(o))
        sb_ = p.call_blocks(lambda t: call_matches(t, r"<impl \[T\]>::sort_by$"))
        ctx.ob("C05.4", "%s|stable-sort" % p.id, "ties keep list order (stable sort_by)", len(sb_) == 1, "%s:%d" % (p.file, p.line))
        skip_ok = False
        for bb in sorted(p.live_blocks()):
            bs = bool_switch(p, bb)
            if not bs:
                continue
            o = p.origin(bs[0])
            if o[0] == "binop" and o[1] == "Le" and o[3][0] == "const" and o[3][1] == ("float", 0.0) and "1" in origin_fields(o[2]):
                fs = set(p.call_blocks(lambda t: is_te_parse(t, te_parse)))
                nx = set(p.call_blocks(lambda t: call_matches(t, r"Iter<.*> as std::iter::Iterator>::next$")))
                r = p.reach([bs[1]], blocked=nx, unwind=False)
                skip_ok = not (r & fs) and not any(x in r for x in p.returns())
        if not skip_ok:
            for bb, t in p.calls():
                if call_matches(t, r"Vec::<T(, A)?>::retain$|Iterator>?::filter(::<|$)") and len(t["args"]) > 1 and all(p.dominates(bb, s_, unwind=False) for s_, _ in sb0):
                    co = p.origin(t["args"][1])
                    cf = facts.fns.get(co[1]) if co[0] == "agg" else None
                    if cf is not None:
                        for b2, i2, s2 in cf.assigns():
                            r2 = s2["rhs"]
                            if r2["rv"] == "binop" and r2["op"] == "Gt" and op_const(r2["b"]) == ("float", 0.0) and s2["lhs"] == {"l": 0, "p": []}:
                                skip_ok = True
        ctx.ob("C05.4", "%s|skip-q-zero" % p.id, "an entry with q <= 0 (or a q that is not a number) is dropped before the codings are tried", skip_ok, "%s:%d" % (p.file, p.line))
        # first accepted coding is returned
        fs = p.call_blocks(lambda t: is_te_parse(t, te_parse))
        ok = len(fs) == 1
        if ok:
            rs = shared.result_switch(p, fs[0])
            ok = rs is not None and rs.get("ok") is not None
            if ok:
                outs = shared.eval_from(p, rs["ok"])
                dl_ = p.term(fs[0])["dest"]["l"]
                # (the answer is `Some(..)` of a closure that is asked per coding, or the parsed coding itself returned from the loop)
                ok = bool(outs) and all(st.read_key((0,))[0] == "some" or st.read_key((0,)) == ("init", (dl_, "as Ok", ".0")) for pp, st in outs)
                # ... and the codings are tried in the order of the sorted list: the loop draws from a plain forward iteration over the very
                # vector that was sorted (no `rev()`, `skip()`, other collection in between)
                def strip_(x):
                    for _ in range(16):
                        if x[0] in ("ref", "deref"):
                            x = x[1]
                        elif x[0] == "call" and x[2] and re.search(r"(::into_iter|::iter|::iter_mut|::deref|::deref_mut|::as_slice|::as_mut_slice|::by_ref)$", x[1]):
                            x = x[2][0]
                        else:
                            break
                    return origin_str(x)
                arg_o = p.origin(p.term(fs[0])["args"][0])
                nexts = [x for x in origin_walk(arg_o) if x[0] == "call" and x[1].endswith("::next") and x[2]]
                in_order = bool(nexts) and bool(sb0) and all(strip_(x[2][0]) == strip_(p.origin(sb0[0][1]["args"][0])) for x in nexts)
                ok = ok and in_order
        if not ok:
            # `sorted.iter().find_map(|v| TransferEncoding::from_str(v.0).ok())`: the first element for which the parser succeeds
            for bb, t in p.calls():
                if call_matches(t, r"Iterator>?::find_map(::<|$)") and len(t["args"]) > 1:
                    co = p.origin(t["args"][1])
                    cf = facts.fns.get(co[1]) if co[0] == "agg" else None
                    if cf is not None and cf.call_blocks(lambda t2: is_te_parse(t2, te_parse)):
                        recv = p.origin(t["args"][0])
                        if not origin_has_call(recv, r"::rev$"):
                            o0 = cf.origin_place({"l": 0, "p": []})
                            ok = (origin_has_call(o0, r"Result::<T, E>::ok$") and (origin_has_call(o0, re.escape(te_parse) + "$") or origin_has_call(o0, r"<impl str>::parse$"))) or (o0[0] == "call" and o0[1] == te_parse)
                            if not ok:
                                # path-wise (the closure may skip some entries first, `if q <= 0 { return None }`): whatever it answers is
                                # nothing, or what the token parser said for this entry, and every path that consults the parser answers that
                                import absint as absint_
                                pcs_ = [b_ for b_ in cf.call_blocks(lambda t2: is_te_parse(t2, te_parse))]
                                n_p, bad_p = 0, 0
                                for pp in absint_.explore(cf, 0, None, max_paths=400):
                                    if pp.end[0] != "return":
                                        continue
                                    r_ = pp.ret()
                                    asked = [e for e in pp.calls() if e[0] in pcs_]
                                    from_parser = bool(asked) and absint_.mentions_call(r_, asked[0][4]) and \
                                        ((r_[0] == "call" and re.search(r"Result::<T, E>::ok$", r_[1])) or r_[0] in ("some", "payload", "refined", "field"))
                                    if asked:
                                        n_p += 1
                                        if not from_parser:
                                            bad_p += 1
                                    elif r_ != ("none",) and not (r_[0] == "agg" and r_[2] == "None"):
                                        bad_p += 1
                                ok = n_p > 0 and bad_p == 0
        ctx.ob("C05.4", "%s|first-supported-wins" % p.id, "the first coding (in preference order) that is supported is the answer", ok, "%s:%d" % (p.file, p.line))
    elif len(folds) == 1:
        fold_preference_rules(ctx, facts, folds[0], te_parse)
    else:
        # the preference order is computed in a way none of the two recognised schemes (stable sort by descending q then first supported;
        # a fold keeping the best weight seen so far) matches: this clause is not decided for such code (said so, rather than alarming)
        ctx.note("C05.4: the code ordering the TE preferences has an unrecognised shape; the preference-order clause is NOT decided on this tree")
        ctx.counts["C05.4 preference order"] = "undecided (unrecognised shape)"
    tefs = facts.fn(te_parse)
    # evaluated token by token (whatever the shape: a chain of comparisons, a `match` on the lower-cased token, a table searched by name)
    import parser_rules as PRS_
    tbl = {}
    samples = {"identity": "Identity", "chunked": "Chunked", "IDENTITY": "Identity", "Chunked": "Chunked", "cHuNkEd": "Chunked", "gzip": None, "": None, "identityx": None, "chunke": None,
               " chunked": None, "deflate": None, "compress": None}
    for tok, want in samples.items():
        g_, ps_ = PRS_.eval_str_fn(facts, tefs.id, tok)
        vs = set()
        for pp in ps_:
            v = PRS_.unwrap_ok(pp.ret())
            if v is None:
                vs.add(None)
            elif v[0] == "agg" and v[1] == TE:
                vs.add(v[2])
            else:
                vs.add("?")
        tbl[tok] = vs
    ok = all(tbl[tok] == {want} for tok, want in samples.items())
    ctx.ob("C05.4", "%s|coding-literals" % tefs.id, "exactly `identity` and `chunked` (any letter case) are supported and map to the matching variant", ok, "%s:%d" % (tefs.file, tefs.line), str({k: sorted(map(str, v)) for k, v in tbl.items() if v != {samples[k]}}))
    variants = [v["name"] for v in facts.adt(TE)["variants"]]
    ctx.ob("C05.4", "%s|variants" % TE, "the supported codings are Identity and Chunked", sorted(variants) == ["Chunked", "Identity"], TE)
    return {}
