#!/bin/bash
# usage: extract.sh <repo-dir> <out-dir> [extra cargo args...]
set -e
REPO=$1; OUT=$2; shift 2
T=$(mktemp -d /tmp/thv-target.XXXXXX)
mkdir -p "$OUT"
SYS=$(rustc +nightly --print sysroot)
cd "$REPO"
env CARGO_NET_OFFLINE=true LD_LIBRARY_PATH=$SYS/lib RUSTFLAGS="-Zmir-opt-level=0 -Zalways-encode-mir -Awarnings" \
  RUSTC_WORKSPACE_WRAPPER=/verif/driver/target/release/thv-driver THV_OUT="$OUT" CARGO_TARGET_DIR=$T \
  cargo +nightly check --offline "$@" >"$OUT/cargo.log" 2>&1 || { rc=$?; rm -rf $T; tail -40 "$OUT/cargo.log" >&2; exit $rc; }
rm -rf $T
